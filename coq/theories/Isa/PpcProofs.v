(* Isa/PpcProofs.v -- correctness of the PowerPC lifter mirror (Isa/PpcLift.v) against the ISA specification
   (Isa/Ppc.v) under the reference IL semantics, per instruction form, at the level of the translated
   one-instruction block (graph, then the block's successor = next instruction address). *)
From Coq Require Import ZArith List Bool NArith Lia ZifyBool.
From Falcon Require Import Base.Res IL.Const IL.ConstSpec IL.Expr IL.ExprSpec IL.Func IL.Loc Exec.Sem
  Isa.ILRun Isa.MipsLift Isa.MipsProofs Isa.MipsMemProofs Isa.MipsHiLoProofs Isa.Ppc Isa.PpcLift.
Import ListNotations.
Local Open Scope Z_scope.
Ltac Zify.zify_post_hook ::= Z.div_mod_to_equations.

(* ------------------------------------------------------------------ embedding *)
Record pemb (s : pstate) (st : sstate) : Prop := mkpemb {
  pe_gpr : forall r, 0 <= r <= 31 -> env_get (st_env st) (kreg r) = Some (mkc 32 (pgpr s r));
  pe_lr : env_get (st_env st) (kreg P_LR) = Some (mkc 32 (plr s));
  pe_ctr : env_get (st_env st) (kreg P_CTR) = Some (mkc 32 (pctr s));
  pe_ca : env_get (st_env st) (kreg P_CA) = Some (mkc 1 (pca s));
  pe_cr : forall i, 0 <= i <= 31 -> env_get (st_env st) (kreg (P_CR0 + i)) = Some (mkc 1 (pcr s i));
  pe_big : bm_big (st_mem st) = true;
  pe_mem : forall a b, bm_get (st_mem st) a = Some b -> b = pmem s a }.

Definition wf_p (s : pstate) : Prop :=
  (forall r, 0 <= pgpr s r < 2 ^ 32) /\ 0 <= plr s < 2 ^ 32 /\ 0 <= pctr s < 2 ^ 32 /\
  (forall i, pcr s i = 0 \/ pcr s i = 1) /\ (pca s = 0 \/ pca s = 1) /\ (forall a, 0 <= pmem s a < 256).

(* keys 0..66 are architectural; temporaries are interned from 67 *)
Definition ptemps_ok (ts : list N) : Prop := forall t, In t ts -> (67 <= t)%N.
Definition parch (k : skey) : Prop := exists r, 0 <= r <= 66 /\ k = kreg r.

Ltac kne := apply kreg_neq; unfold P_LR, P_CTR, P_CA, P_CR0 in *; lia.

Lemma pemb_setg s st r v : pemb s st -> 0 <= r <= 31 -> pemb (setg s r v) (set_env st (kreg r) (mkc 32 v)).
Proof.
  intros [A B C D E F G] Hr. constructor; unfold set_env; cbn [st_env st_mem setg pgpr plr pctr pca pcr pmem]; auto.
  - intros q Hq. destruct (Z.eqb_spec q r) as [->|N]; [apply env_get_set_same|].
    rewrite env_get_set_other by kne. apply A; assumption.
  - rewrite env_get_set_other by kne. assumption.
  - rewrite env_get_set_other by kne. assumption.
  - rewrite env_get_set_other by kne. assumption.
  - intros i Hi. rewrite env_get_set_other by kne. apply E; assumption.
Qed.
Lemma pemb_set_lr s st v : pemb s st -> pemb (set_lr s v) (set_env st (kreg P_LR) (mkc 32 v)).
Proof.
  intros [A B C D E F G]. constructor; unfold set_env; cbn [st_env st_mem set_lr pgpr plr pctr pca pcr pmem]; auto.
  - intros q Hq. rewrite env_get_set_other by kne. apply A; assumption.
  - apply env_get_set_same.
  - rewrite env_get_set_other by kne. assumption.
  - rewrite env_get_set_other by kne. assumption.
  - intros i Hi. rewrite env_get_set_other by kne. apply E; assumption.
Qed.
Lemma pemb_set_ctr s st v : pemb s st -> pemb (set_ctr s v) (set_env st (kreg P_CTR) (mkc 32 v)).
Proof.
  intros [A B C D E F G]. constructor; unfold set_env; cbn [st_env st_mem set_ctr pgpr plr pctr pca pcr pmem]; auto.
  - intros q Hq. rewrite env_get_set_other by kne. apply A; assumption.
  - rewrite env_get_set_other by kne. assumption.
  - apply env_get_set_same.
  - rewrite env_get_set_other by kne. assumption.
  - intros i Hi. rewrite env_get_set_other by kne. apply E; assumption.
Qed.
Lemma pemb_set_ca s st v : pemb s st -> pemb (set_ca s v) (set_env st (kreg P_CA) (mkc 1 v)).
Proof.
  intros [A B C D E F G]. constructor; unfold set_env; cbn [st_env st_mem set_ca pgpr plr pctr pca pcr pmem]; auto.
  - intros q Hq. rewrite env_get_set_other by kne. apply A; assumption.
  - rewrite env_get_set_other by kne. assumption.
  - rewrite env_get_set_other by kne. assumption.
  - apply env_get_set_same.
  - intros i Hi. rewrite env_get_set_other by kne. apply E; assumption.
Qed.
Lemma pemb_set_other s st k v : pemb s st -> ~ parch k -> pemb s (set_env st k v).
Proof.
  intros [A B C D E F G] Hk.
  assert (N : forall r, 0 <= r <= 66 -> k <> kreg r) by (intros r Hr E0; apply Hk; exists r; auto).
  constructor; unfold set_env; cbn [st_env st_mem]; auto.
  - intros q Hq. rewrite env_get_set_other by (apply N; lia). apply A; assumption.
  - rewrite env_get_set_other by (apply N; unfold P_LR; lia). assumption.
  - rewrite env_get_set_other by (apply N; unfold P_CTR; lia). assumption.
  - rewrite env_get_set_other by (apply N; unfold P_CA; lia). assumption.
  - intros i Hi. rewrite env_get_set_other by (apply N; unfold P_CR0; lia). apply E; assumption.
Qed.
Lemma pemb_set_pc s st v : pemb s st -> pemb (Ppc.set_pc s v) st.
Proof. intros [A B C D E F G]. constructor; auto. Qed.

Lemma ptmp_not_arch ts : ptemps_ok ts -> (1 <= length ts)%nat -> ~ parch (nthN ts 0, None).
Proof.
  intros H Hl [q [Hq E]]. destruct ts as [|t ts]; [cbn in Hl; lia|].
  unfold nthN in E. cbn [nth] in E. specialize (H t (or_introl eq_refl)).
  unfold kreg in E. inversion E as [E']. subst t. assert (Z.to_N q < 67)%N by lia. lia.
Qed.

(* ------------------------------------------------------------------ denotations *)
Lemma den_pexp s st r : pemb s st -> 0 <= r <= 31 -> den (st_env st) (pexp r) = Ok (mkc 32 (pgpr s r)).
Proof. intros He Hr. unfold pexp, preg. apply den_scalar. apply (pe_gpr _ _ He). assumption. Qed.
Lemma den_plr s st : pemb s st -> den (st_env st) (pexp P_LR) = Ok (mkc 32 (plr s)).
Proof. intros He. unfold pexp, preg. apply den_scalar. apply (pe_lr _ _ He). Qed.
Lemma den_pctr s st : pemb s st -> den (st_env st) (pexp P_CTR) = Ok (mkc 32 (pctr s)).
Proof. intros He. unfold pexp, preg. apply den_scalar. apply (pe_ctr _ _ He). Qed.
Lemma den_carry s st : pemb s st -> den (st_env st) (EScalar carry) = Ok (mkc 1 (pca s)).
Proof. intros He. unfold carry. apply den_scalar. apply (pe_ca _ _ He). Qed.

Ltac pden :=
  lazymatch goal with
  | |- den _ (pexp P_LR) = _ => eapply den_plr; eassumption
  | |- den _ (pexp P_CTR) = _ => eapply den_pctr; eassumption
  | |- den _ (pexp _) = _ => eapply den_pexp; [eassumption|unfold reg_ok in *; lia]
  | |- den _ (EScalar carry) = _ => eapply den_carry; eassumption
  | |- den _ (expr_const _ 32) = _ => rewrite den_const, new_big_32; reflexivity
  | |- den _ (EBin _ _ _) = _ => eapply eq_trans; [eapply den_bin; pden|cbn [sp_bin]; reflexivity]
  | |- den _ (EExt _ _ _) = _ => eapply eq_trans; [eapply den_ext; pden|cbn [sp_ext cbits cval Z.leb Z.compare Pos.compare Pos.compare_cont]; reflexivity]
  end.

Lemma e_bits_pexp r : e_bits (pexp r) = 32.
Proof. reflexivity. Qed.

(* ------------------------------------------------------------------ the statement proved per form *)
Definition ptemps_need (i : pinstr) : nat := match i with PAddze _ _ | PLbz _ _ _ => 1%nat | _ => 0%nat end.

(* cmpwi / cmplwi copy XER[SO] into the field's so bit; the IL has no XER[SO] and leaves crN-so alone: the
   theorem covers states in which that bit already equals XER[SO] *)
Definition so_ok (i : pinstr) (s : pstate) : Prop :=
  match i with PCmpwi bf _ _ | PCmplwi bf _ _ => pcr s (4 * bf + 3) = pso s | _ => True end.

Definition pcovers (m : bmem) (a n : Z) : Prop := forall k, 0 <= k < n -> bm_get m (a + k) <> None.
Definition paccess_ok (i : pinstr) (s : pstate) (m : bmem) : Prop :=
  match i with
  | PLbz _ ra d => pcovers m (Ppc.a32 (pgpr s ra + exts16 d)) 1
  | PLwz _ ra d | PLwzu _ ra d => pcovers m (Ppc.a32 (pgpr s ra + exts16 d)) 4
  | _ => True
  end.

Definition pblock_post (r : presult) (st : sstate) (o : outcome) : Prop :=
  match r with
  | POk s' => exists st', o = Goto (ppc s') st' /\ pemb s' st'
  | PUnpred => True
  end.

(* `b`: capstone hands over the 64-bit target a + offset, the ISA wraps at 32 bits: covered when they agree *)
Definition ptarget_ok (i : pinstr) (a : Z) : Prop :=
  match i with PB li _ _ => 0 <= a + b_off li < 2 ^ 32 | _ => True end.

Definition pcorrect (i : pinstr) : Prop :=
  forall a ts s st, wf_p s -> pemb s st -> ppc s = a -> 0 <= a -> a + 4 < 2 ^ 32 ->
    ptemps_ok ts -> (ptemps_need i <= length ts)%nat -> so_ok i s -> paccess_ok i s (st_mem st) -> ptarget_ok i a ->
    match plift i a ts with
    | None => True
    | Some (Ok g, succs) => pblock_post (pstep i s) st (run_block [g] (merge_succs succs) st)
    | Some _ => False
    end.

Lemma run_fall g a st st' : run_graph g st = Fin st' ->
  run_block [g] (merge_succs [(a, None)]) st = Goto a st'.
Proof. intros H. rewrite merge_one, run_block_cons, H. reflexivity. Qed.

Lemma pnext_post s st st' a g : Ppc.ppc s = a -> 0 <= a -> a + 4 < 2 ^ 32 ->
  forall s', ppc s' = ppc s -> run_graph g st = Fin st' -> pemb s' st' ->
  pblock_post (next s') st (run_block [g] (merge_succs [(a + 4, None)]) st).
Proof.
  intros Hp Ha0 Ha s' Hpc Hr He. unfold next, pblock_post. exists st'. split.
  - rewrite (run_fall g (a + 4) st st' Hr). cbn [ppc Ppc.set_pc]. rewrite Hpc, Hp.
    unfold Ppc.a32, Ppc.W. rewrite Z.mod_small by lia. reflexivity.
  - apply pemb_set_pc. assumption.
Qed.

(* single assignment to a GPR *)
Lemma p_assign_gpr s st a rt e v : ppc s = a -> 0 <= a -> a + 4 < 2 ^ 32 -> pemb s st -> 0 <= rt <= 31 ->
  den (st_env st) e = Ok (mkc 32 v) ->
  pblock_post (next (setg s rt v)) st (run_block [single (Some a) [OAssign (preg rt) e]] (merge_succs [(a + 4, None)]) st).
Proof.
  intros Hp Ha0 Ha He Hr Hd. eapply pnext_post; try eassumption; [reflexivity| |].
  - rewrite run_single. cbn [number]. erewrite run_assign by eassumption. reflexivity.
  - apply pemb_setg; assumption.
Qed.

Definition preg_ok (r : Z) : Prop := 0 <= r <= 31.
Definition pimm_ok (x : Z) : Prop := 0 <= x < 2 ^ 16.

Lemma exts16_sx x : exts16 x = Mips.sx16 x.
Proof. reflexivity. Qed.

(* ------------------------------------------------------------------ add subf addi addis li lis mr *)
Theorem padd_correct rt ra rb : preg_ok rt -> preg_ok ra -> preg_ok rb -> pcorrect (PAdd rt ra rb).
Proof.
  intros Ht Ha_ Hb_ a ts s st Hw He Hp Ha0 Ha Hts Hn Hso Hacc Htg. unfold preg_ok in *.
  cbn [plift pstep]. unfold pb_add. rewrite mk_bin_ok by reflexivity. cbn [bind].
  apply p_assign_gpr; try assumption. pden.
Qed.

Theorem psubf_correct rt ra rb : preg_ok rt -> preg_ok ra -> preg_ok rb -> pcorrect (PSubf rt ra rb).
Proof.
  intros Ht Ha_ Hb_ a ts s st Hw He Hp Ha0 Ha Hts Hn Hso Hacc Htg. unfold preg_ok in *.
  cbn [plift pstep]. unfold pb_subf. rewrite !mk_bin_ok by reflexivity. cbn [bind].
  destruct Hw as (Rg & _). pose proof (Rg ra) as Ra.
  replace (U 32 (Ppc.W - 1 - pgpr s ra + pgpr s rb + 1))
    with (s_add 32 (s_add 32 (s_xor 32 (pgpr s ra) (4294967295 mod 2 ^ 32)) (pgpr s rb)) (1 mod 2 ^ 32)).
  - apply p_assign_gpr; try assumption. pden.
  - unfold s_add, s_xor, U, Ppc.W. change (4294967295 mod 2 ^ 32) with 4294967295. change (1 mod 2 ^ 32) with 1.
    rewrite lxor_ones32 by assumption. rewrite Z.add_mod_idemp_l by lia. f_equal.
Qed.

Theorem paddi_correct rt ra si : preg_ok rt -> preg_ok ra -> pimm_ok si -> pcorrect (PAddi rt ra si).
Proof.
  intros Ht Ha_ Hi a ts s st Hw He Hp Ha0 Ha Hts Hn Hso Hacc Htg. unfold preg_ok, pimm_ok in *.
  cbn [plift pstep]. unfold ra0. destruct (Z.eqb_spec ra 0) as [->|N].
  - unfold pb_li. replace (U 32 (0 + exts16 si)) with (cs_simm si mod 2 ^ 32)
      by (rewrite cs_simm_mod by assumption; reflexivity).
    apply p_assign_gpr; try assumption. pden.
  - unfold pb_addi. rewrite mk_bin_ok by reflexivity. cbn [bind].
    replace (U 32 (pgpr s ra + exts16 si)) with (s_add 32 (pgpr s ra) (cs_simm si mod 2 ^ 32)).
    + apply p_assign_gpr; try assumption. pden.
    + unfold s_add, U. rewrite cs_simm_mod by assumption. rewrite Z.add_mod_idemp_r by lia. reflexivity.
Qed.

Lemma simm_shl si : 0 <= si < 2 ^ 16 -> (cs_simm si * 2 ^ 16) mod 2 ^ 32 = (exts16 si * 2 ^ 16) mod 2 ^ 32.
Proof.
  intros H. unfold cs_simm, exts16. destruct (si <? 2 ^ 15); [reflexivity|].
  replace ((2 ^ 64 - 2 ^ 16 + si) * 2 ^ 16) with ((si - 2 ^ 16) * 2 ^ 16 + 2 ^ 48 * 2 ^ 32)
    by (change (2 ^ 64) with (2 ^ 48 * 2 ^ 16); change (2 ^ 32) with (2 ^ 16 * 2 ^ 16); ring).
  apply Z.mod_add. lia.
Qed.

Theorem paddis_correct rt ra si : preg_ok rt -> preg_ok ra -> pimm_ok si -> pcorrect (PAddis rt ra si).
Proof.
  intros Ht Ha_ Hi a ts s st Hw He Hp Ha0 Ha Hts Hn Hso Hacc Htg. unfold preg_ok, pimm_ok in *.
  cbn [plift pstep]. unfold ra0. destruct (Z.eqb_spec ra 0) as [->|N].
  - unfold pb_lis. rewrite mk_bin_ok by reflexivity. cbn [bind].
    replace (U 32 (0 + exts16 si * 2 ^ 16)) with (s_shl 32 (cs_simm si mod 2 ^ 32) (16 mod 2 ^ 32)).
    + apply p_assign_gpr; try assumption. pden.
    + unfold s_shl, U. change (16 mod 2 ^ 32) with 16. change (32 <=? 16) with false. cbv iota.
      rewrite cs_simm_mod by assumption. rewrite Z.mul_mod_idemp_l by lia. reflexivity.
  - unfold pb_addi. rewrite mk_bin_ok by reflexivity. cbn [bind].
    replace (U 32 (pgpr s ra + exts16 si * 2 ^ 16)) with (s_add 32 (pgpr s ra) ((cs_simm si * 2 ^ 16) mod 2 ^ 32)).
    + apply p_assign_gpr; try assumption. pden.
    + unfold s_add, U. rewrite simm_shl by assumption. rewrite Z.add_mod_idemp_r by lia. reflexivity.
Qed.

Lemma pemb_setg_same s st r : pemb s st -> pemb (setg s r (pgpr s r)) st.
Proof.
  intros [A B C D E F G]. constructor; cbn [setg pgpr plr pctr pca pcr pmem]; auto.
  intros q Hq. destruct (Z.eqb_spec q r) as [->|N]; apply A; assumption.
Qed.

Theorem pmr_correct ra rs rb : preg_ok ra -> preg_ok rs -> preg_ok rb -> pcorrect (POr ra rs rb).
Proof.
  intros Ht Hs Hb_ a ts s st Hw He Hp Ha0 Ha Hts Hn Hso Hacc Htg. unfold preg_ok in *.
  cbn [plift pstep]. destruct (Z.eqb_spec rs rb) as [->|N]; [|exact I].
  unfold pb_mr. rewrite Z.lor_diag. apply p_assign_gpr; try assumption. pden.
Qed.

Theorem pnop_correct ra rs ui : pcorrect (POri ra rs ui).
Proof.
  intros a ts s st Hw He Hp Ha0 Ha Hts Hn Hso Hacc Htg. cbn [plift pstep].
  destruct ((ra =? 0) && (rs =? 0) && (ui =? 0)) eqn:E; [|exact I].
  apply andb_true_iff in E. destruct E as [E E3]. apply andb_true_iff in E. destruct E as [E1 E2].
  apply Z.eqb_eq in E1, E2, E3. subst ra rs ui. rewrite Z.lor_0_r. unfold b_nop.
  eapply pnext_post; try eassumption; [reflexivity|apply run_nop_graph|apply pemb_setg_same; assumption].
Qed.

Theorem pmtspr_correct spr rs : preg_ok rs -> pcorrect (PMtspr spr rs).
Proof.
  intros Hs a ts s st Hw He Hp Ha0 Ha Hts Hn Hso Hacc Htg. unfold preg_ok in *. cbn [plift pstep].
  destruct (Z.eqb_spec spr 8) as [->|N8].
  - unfold pb_mtspr. eapply pnext_post; try eassumption; [reflexivity| |apply pemb_set_lr; eassumption].
    rewrite run_single. cbn [number]. erewrite run_assign by pden. reflexivity.
  - destruct (Z.eqb_spec spr 9) as [->|N9]; [|exact I].
    unfold pb_mtspr. eapply pnext_post; try eassumption; [reflexivity| |apply pemb_set_ctr; eassumption].
    rewrite run_single. cbn [number]. erewrite run_assign by pden. reflexivity.
Qed.

Theorem pmfspr_correct rt spr : preg_ok rt -> pcorrect (PMfspr rt spr).
Proof.
  intros Ht a ts s st Hw He Hp Ha0 Ha Hts Hn Hso Hacc Htg. unfold preg_ok in *. cbn [plift pstep].
  destruct (Z.eqb_spec spr 8) as [->|N8]; [|exact I].
  unfold pb_mflr. apply p_assign_gpr; try assumption. pden.
Qed.

(* ------------------------------------------------------------------ cmpwi cmplwi *)
Lemma pemb_crf s st bf lt gt eq : pemb s st -> 0 <= bf <= 7 -> pcr s (4 * bf + 3) = pso s ->
  pemb (set_crf s bf lt gt eq)
       (set_env (set_env (set_env st (kreg (P_CR0 + 4 * bf)) (mkc 1 lt)) (kreg (P_CR0 + (4 * bf + 1))) (mkc 1 gt))
                (kreg (P_CR0 + (4 * bf + 2))) (mkc 1 eq)).
Proof.
  intros [A B C D E F G] Hbf Hso. constructor; unfold set_env; cbn [st_env st_mem set_crf set_cr pgpr plr pctr pca pcr pmem]; auto.
  - intros q Hq. rewrite !env_get_set_other by kne. apply A; assumption.
  - rewrite !env_get_set_other by kne. assumption.
  - rewrite !env_get_set_other by kne. assumption.
  - rewrite !env_get_set_other by kne. assumption.
  - intros i Hi.
    destruct (Z.eqb_spec i (4 * bf)) as [->|N0].
    { rewrite !env_get_set_other by kne. apply env_get_set_same. }
    destruct (Z.eqb_spec i (4 * bf + 1)) as [->|N1].
    { rewrite env_get_set_other by kne. apply env_get_set_same. }
    destruct (Z.eqb_spec i (4 * bf + 2)) as [->|N2].
    { apply env_get_set_same. }
    rewrite !env_get_set_other by kne.
    destruct (Z.eqb_spec i (4 * bf + 3)) as [->|N3]; [rewrite <- Hso|]; apply E; assumption.
Qed.

Lemma S32_eqb x y : 0 <= x < 2 ^ 32 -> 0 <= y < 2 ^ 32 -> (S 32 x =? S 32 y) = (x =? y).
Proof.
  intros Hx Hy. unfold S. change (2 ^ (32 - 1)) with 2147483648. change (2 ^ 32) with 4294967296 in *.
  destruct (x <? 2147483648) eqn:Ex, (y <? 2147483648) eqn:Ey, (Z.eqb_spec x y);
    repeat match goal with |- context [?p =? ?q] => destruct (Z.eqb_spec p q) end; lia.
Qed.

Lemma den_frame_pexp st k v r : k <> kreg r -> den (st_env (set_env st k v)) (pexp r) = den (st_env st) (pexp r).
Proof.
  intros N. unfold pexp, preg, den, skey_of, set_env. cbn [st_env sname sssa]. fold (kreg r).
  rewrite env_get_set_other by assumption. reflexivity.
Qed.

Theorem pcmp_correct (signed_ : bool) bf ra imm : preg_ok ra -> 0 <= bf <= 7 -> pimm_ok imm ->
  pcorrect (if signed_ then PCmpwi bf ra imm else PCmplwi bf ra imm).
Proof.
  intros Hr Hbf Hi a ts s st Hw He Hp Ha0 Ha Hts Hn Hso Hacc Htg. unfold preg_ok, pimm_ok in *.
  destruct Hw as (Rg & _). pose proof (Rg ra) as Ra.
  set (o := if signed_ then Cmplts else Cmpltu). set (iv := if signed_ then cs_simm imm else imm).
  assert (Riv : 0 <= iv mod 2 ^ 32 < 2 ^ 32) by (apply Z.mod_pos_bound; lia).
  assert (G : match (if bf =? 0 then None else Some (pb_cmp (Some a) o bf ra iv, [(a + 4, @None expr)])) with
              | None => True
              | Some (Ok g, succs) => pblock_post (pstep (if signed_ then PCmpwi bf ra imm else PCmplwi bf ra imm) s) st (run_block [g] (merge_succs succs) st)
              | Some _ => False end).
  { destruct (bf =? 0); [exact I|]. unfold pb_cmp.
    assert (Eo : is_cmp o = true) by (subst o; destruct signed_; reflexivity).
    rewrite !mk_bin_ok by reflexivity. cbn [bind].
    set (x := pgpr s ra) in *. set (y := iv mod 2 ^ 32) in *.
    assert (Dl : den (st_env st) (pexp ra) = Ok (mkc 32 x)) by pden.
    assert (Dr : forall en, den en (expr_const iv 32) = Ok (mkc 32 y)) by (intros; rewrite den_const, new_big_32; reflexivity).
    set (lt := if signed_ then b2z (S 32 x <? exts16 imm) else b2z (x <? imm)).
    set (gt := if signed_ then b2z (exts16 imm <? S 32 x) else b2z (imm <? x)).
    set (eq := if signed_ then b2z (S 32 x =? exts16 imm) else b2z (x =? imm)).
    assert (Vy : if signed_ then S 32 y = exts16 imm else y = imm).
    { subst y iv. destruct signed_; [apply S32_simm; assumption|apply Z.mod_small; lia]. }
    replace (pstep (if signed_ then PCmpwi bf ra imm else PCmplwi bf ra imm) s) with (next (set_crf s bf lt gt eq))
      by (subst lt gt eq; destruct signed_; reflexivity).
    cbn [so_ok] in Hso. assert (Hso' : pcr s (4 * bf + 3) = pso s) by (destruct signed_; exact Hso).
    eapply pnext_post; try eassumption; [reflexivity| |apply pemb_crf; eassumption].
    rewrite run_single. cbn [number].
    erewrite run_assign with (v := mkc 1 lt).
    2: { erewrite den_bin by (first [exact Dl|apply Dr]). subst o lt. destruct signed_; cbn [sp_bin]; unfold s_cmplts, s_cmpltu, b2z.
         - rewrite Vy. reflexivity.
         - rewrite Vy. reflexivity. }
    erewrite run_assign with (v := mkc 1 gt).
    2: { erewrite den_bin; [|apply Dr|rewrite den_frame_pexp by kne; exact Dl].
         subst o gt. destruct signed_; cbn [sp_bin]; unfold s_cmplts, s_cmpltu, b2z; rewrite Vy; reflexivity. }
    erewrite run_assign with (v := mkc 1 eq).
    2: { erewrite den_bin; [|rewrite !den_frame_pexp by kne; exact Dl|apply Dr].
         subst eq. cbn [sp_bin]. unfold s_cmpeq, b2z. destruct signed_.
         - rewrite <- Vy. rewrite S32_eqb by assumption. reflexivity.
         - rewrite Vy. reflexivity. }
    cbn [run_instrs]. unfold crbit. cbn [skey_of sname sssa]. fold (kreg (P_CR0 + 4 * bf)).
    fold (kreg (P_CR0 + (4 * bf + 1))). fold (kreg (P_CR0 + (4 * bf + 2))). reflexivity. }
  subst o iv. destruct signed_; cbn [plift]; exact G.
Qed.

(* ------------------------------------------------------------------ addze *)
Theorem paddze_correct rt ra : preg_ok rt -> preg_ok ra -> pcorrect (PAddze rt ra).
Proof.
  intros Ht Hr a ts s st Hw He Hp Ha0 Ha Hts Hn Hso Hacc Htg. unfold preg_ok in *.
  cbn [ptemps_need] in Hn. pose proof (ptmp_not_arch ts Hts Hn) as Ta. set (t := nthN ts 0) in *.
  assert (Nt : forall r, 0 <= r <= 66 -> (t, @None N) <> kreg r) by (intros r Hr0 E; apply Ta; exists r; auto).
  destruct Hw as (Rg & _ & _ & _ & Rca & _). pose proof (Rg ra) as Ra.
  cbn [plift pstep]. fold t. unfold pb_addze.
  change (mk_ext Zext 32 (EScalar carry)) with (Ok (EExt Zext 32 (EScalar carry))). cbn [bind].
  rewrite !mk_bin_ok by reflexivity. cbn [bind].
  set (x := pgpr s ra) in *. set (T := U 32 (x + pca s)).
  eapply pnext_post; try eassumption; [reflexivity| |].
  - rewrite run_single. cbn [number].
    erewrite run_assign with (v := mkc 32 T) by (subst T x; pden).
    change (skey_of (tmp t 32)) with (t, @None N).
    erewrite run_assign with (v := mkc 1 (b2z (Ppc.W <=? x + pca s))).
    2: { erewrite den_bin; [|apply den_scalar; unfold set_env; cbn [st_env]; apply env_get_set_same
                            |rewrite den_frame_pexp by (apply Nt; lia); subst x; pden].
         cbn [sp_bin]. unfold s_cmpltu, b2z, Ppc.W. f_equal. f_equal. subst T. unfold U.
         change (2 ^ 32) with 4294967296 in *.
         fold x. destruct Rca as [E | E]; rewrite E;
           [destruct (Z.ltb_spec ((x + 0) mod 4294967296) x), (Z.leb_spec 4294967296 (x + 0))
           |destruct (Z.ltb_spec ((x + 1) mod 4294967296) x), (Z.leb_spec 4294967296 (x + 1))]; lia. }
    erewrite run_assign with (v := mkc 32 T).
    2: { apply den_scalar. unfold set_env, carry. cbn [st_env skey_of sname sssa]. fold (kreg P_CA).
         rewrite env_get_set_other by (intros E; apply (Nt P_CA); [unfold P_CA; lia|symmetry; exact E]).
         apply env_get_set_same. }
    reflexivity.
  - unfold carry. cbn [skey_of sname sssa]. fold (kreg P_CA). fold (kreg rt).
    apply (pemb_setg (set_ca s _)); [|lia]. apply pemb_set_ca. apply pemb_set_other; assumption.
Qed.

(* ------------------------------------------------------------------ rlwinm / slwi *)
Lemma in_range32 k : 0 <= k < 32 -> In k (map Z.of_nat (seq 0 32)).
Proof. intros H. replace k with (Z.of_nat (Z.to_nat k)) by lia. apply in_map. apply in_seq. lia. Qed.

Lemma rust_mask_ok mb me : 0 <= mb < 32 -> 0 <= me < 32 -> rust_mask mb me = mask32 mb me /\ 0 <= mask32 mb me < 2 ^ 32.
Proof.
  intros Hmb Hme.
  assert (A : forallb (fun mb => forallb (fun me => (rust_mask mb me =? mask32 mb me) && (0 <=? mask32 mb me) && (mask32 mb me <? 2 ^ 32))
                                  (map Z.of_nat (seq 0 32))) (map Z.of_nat (seq 0 32)) = true) by (vm_compute; reflexivity).
  rewrite forallb_forall in A. specialize (A mb (in_range32 mb Hmb)).
  rewrite forallb_forall in A. specialize (A me (in_range32 me Hme)).
  apply andb_true_iff in A. destruct A as [A A3]. apply andb_true_iff in A. destruct A as [A1 A2]. lia.
Qed.

Lemma rotl_val x n : 0 <= x < 2 ^ 32 -> 0 <= n < 32 ->
  s_or 32 (s_shl 32 x n) (s_shr 32 x (s_sub 32 (32 mod 2 ^ 32) n)) = rotl32 x n.
Proof.
  intros Hx Hn. unfold s_or, s_shl, s_shr, s_sub, rotl32. change (32 mod 2 ^ 32) with 32.
  rewrite (U_small 32 (32 - n)) by (change (2 ^ 32) with 4294967296; lia).
  destruct (Z.leb_spec 32 n); [lia|].
  destruct (Z.eqb_spec n 0) as [->|N0].
  - change (32 <=? 32 - 0) with true. cbv iota. change (2 ^ (32 - 0)) with (2 ^ 32).
    rewrite (Z.div_small x (2 ^ 32)) by lia. rewrite Z.lor_0_r. lia.
  - destruct (Z.leb_spec 32 (32 - n)); [lia|].
    rewrite U32_mul_pow by lia. apply lor_add_disjoint; [lia| |].
    + apply Z.mod_pos_bound. apply Z.pow_pos_nonneg; lia.
    + apply div_lt_pow; [lia|assumption].
Qed.

Lemma rotl_eq e sh : e_bits e = 32 ->
  rotl e (expr_const sh 32) = Ok (EBin Or (EBin Shl e (expr_const sh 32)) (EBin Shr e (EBin Sub (expr_const 32 32) (expr_const sh 32)))).
Proof. intros H. unfold rotl. rewrite H. repeat (rewrite mk_bin_ok by (cbn [e_bits is_cmp]; rewrite ?H; reflexivity); cbn [bind]). reflexivity. Qed.

Theorem prlwinm_correct ra rs sh mb me : preg_ok ra -> preg_ok rs -> 0 <= sh < 32 -> 0 <= mb < 32 -> 0 <= me < 32 ->
  pcorrect (PRlwinm ra rs sh mb me).
Proof.
  intros Ht Hs Hsh Hmb Hme a ts s st Hw He Hp Ha0 Ha Hts Hn Hso Hacc Htg. unfold preg_ok in *.
  destruct Hw as (Rg & _). pose proof (Rg rs) as Rs.
  destruct (rust_mask_ok mb me Hmb Hme) as [Em Rm].
  cbn [plift pstep]. unfold pb_rlwinm. rewrite rotl_eq by reflexivity. cbn [bind]. rewrite mk_bin_ok by reflexivity. cbn [bind].
  replace (Z.land (rotl32 (pgpr s rs) sh) (mask32 mb me))
    with (s_and 32 (s_or 32 (s_shl 32 (pgpr s rs) (sh mod 2 ^ 32)) (s_shr 32 (pgpr s rs) (s_sub 32 (32 mod 2 ^ 32) (sh mod 2 ^ 32)))) (rust_mask mb me mod 2 ^ 32)).
  - apply p_assign_gpr; try assumption. pden.
  - rewrite (Z.mod_small sh) by (change (2 ^ 32) with 4294967296; lia). rewrite rotl_val by assumption.
    rewrite Em, (Z.mod_small (mask32 mb me)) by assumption. reflexivity.
Qed.

(* ------------------------------------------------------------------ b bl blr bctr *)
Lemma run_block_goto g succs st a st' : run_graph g st = Goto a st' -> run_block [g] succs st = Goto a st'.
Proof. intros H. rewrite run_block_cons, H. reflexivity. Qed.

Theorem pb_correct li aa lk : 0 <= li < 2 ^ 24 -> pcorrect (PB li aa lk).
Proof.
  intros Hli a ts s st Hw He Hp Ha0 Ha Hts Hn Hso Hacc Htg. cbn [plift pstep ptarget_ok] in *.
  destruct (Z.eqb_spec aa 1) as [->|Na]; [exact I|].
  fold (b_off li).
  destruct (Z.eqb_spec lk 1) as [->|Nl].
  - (* bl *)
    unfold pb_bl, pblock_post. eexists. split.
    + apply run_block_goto. rewrite run_single. cbn [number].
      erewrite run_assign by (rewrite den_const, new_big_32; reflexivity).
      cbn [run_instrs i_op exec_op]. rewrite den_const, new_big_32. cbn [bind].
      unfold addr_of, ADDR_LIMIT. cbn [cval].
      assert (R : 0 <= ((a + b_off li) mod 2 ^ 32) mod 2 ^ 32 < 2 ^ 32) by (apply Z.mod_pos_bound; lia).
      destruct (Z.ltb_spec (((a + b_off li) mod 2 ^ 32) mod 2 ^ 32) (2 ^ 64)); [|lia]. cbn [bind].
      rewrite Z.mod_mod by lia. cbn [ppc Ppc.set_pc]. rewrite Hp. reflexivity.
    + apply pemb_set_pc. rewrite Hp. rewrite (Z.mod_small (a + 4)) by lia.
      unfold Ppc.a32, Ppc.W. rewrite (Z.mod_small (a + 4)) by lia. apply pemb_set_lr. assumption.
  - (* b *)
    unfold b_nop, pblock_post. exists st. split; [|apply pemb_set_pc; assumption].
    rewrite merge_one, run_block_cons, run_nop_graph. unfold run_block. cbn [run_seq enabled_succs guard_on bind].
    cbn [ppc Ppc.set_pc]. rewrite Hp. unfold Ppc.a32, Ppc.W.
    rewrite !Z.mod_small by (change (2 ^ 64) with 18446744073709551616; change (2 ^ 32) with 4294967296 in *; lia). reflexivity.
Qed.

Lemma land_align' x : 0 <= x < 2 ^ 32 -> Z.land x (4294967292 mod 2 ^ 32) = x / 4 * 4.
Proof.
  intros H. change (4294967292 mod 2 ^ 32) with 4294967292. rewrite Z.land_comm, land_align by assumption.
  unfold Mips.aligned4. lia.
Qed.

Lemma run_branch_masked ad st r v : den (st_env st) (pexp r) = Ok (mkc 32 v) -> 0 <= v < 2 ^ 32 ->
  match pb_branch_masked ad r with
  | Ok g => run_graph g st = Goto (v / 4 * 4) st
  | _ => False
  end.
Proof.
  intros Hd Hv. unfold pb_branch_masked. rewrite mk_bin_ok by reflexivity. cbn [bind].
  apply run_branch_op.
  - eapply eq_trans; [eapply den_bin; [exact Hd|rewrite den_const, new_big_32; reflexivity]|].
    cbn [sp_bin]. unfold s_and. rewrite land_align' by assumption. reflexivity.
  - change (2 ^ 32) with 4294967296 in *. lia.
Qed.

Theorem pbclr_correct bo bi lk : pcorrect (PBclr bo bi lk).
Proof.
  intros a ts s st Hw He Hp Ha0 Ha Hts Hn Hso Hacc Htg. cbn [plift].
  destruct ((bo =? 20) && (bi =? 0) && (lk =? 0)) eqn:E; [|exact I].
  apply andb_true_iff in E. destruct E as [E E3]. apply andb_true_iff in E. destruct E as [E1 E2].
  apply Z.eqb_eq in E1, E2, E3. subst bo bi lk.
  destruct Hw as (_ & Rl & _).
  pose proof (run_branch_masked (Some a) st P_LR (plr s) (den_plr s st He) Rl) as R.
  destruct (pb_branch_masked (Some a) P_LR) as [g| |]; try contradiction.
  change (pstep (PBclr 20 0 0) s) with (POk (Ppc.set_pc s (plr s / 4 * 4))).
  unfold pblock_post. exists st. split; [apply run_block_goto; exact R|apply pemb_set_pc; assumption].
Qed.

Theorem pbcctr_correct bo bi lk : pcorrect (PBcctr bo bi lk).
Proof.
  intros a ts s st Hw He Hp Ha0 Ha Hts Hn Hso Hacc Htg. cbn [plift].
  destruct ((bo =? 20) && (bi =? 0) && (lk =? 0)) eqn:E; [|exact I].
  apply andb_true_iff in E. destruct E as [E E3]. apply andb_true_iff in E. destruct E as [E1 E2].
  apply Z.eqb_eq in E1, E2, E3. subst bo bi lk.
  destruct Hw as (_ & _ & Rc & _).
  pose proof (run_branch_masked (Some a) st P_CTR (pctr s) (den_pctr s st He) Rc) as R.
  destruct (pb_branch_masked (Some a) P_CTR) as [g| |]; try contradiction.
  change (pstep (PBcctr 20 0 0) s) with (POk (Ppc.set_pc s (pctr s / 4 * 4))).
  unfold pblock_post. exists st. split; [apply run_block_goto; exact R|apply pemb_set_pc; assumption].
Qed.

(* ------------------------------------------------------------------ memory: lwz lbz lwzu stw stwu *)
Lemma pea_ok ra d : pea ra d = Ok (EBin Add (expr_const (cs_simm d) 32) (pexp ra)).
Proof. reflexivity. Qed.
Definition pva (s : pstate) (ra d : Z) : Z := Ppc.a32 (pgpr s ra + exts16 d).
Lemma den_pea s st ra d : pemb s st -> preg_ok ra -> pimm_ok d ->
  den (st_env st) (EBin Add (expr_const (cs_simm d) 32) (pexp ra)) = Ok (mkc 32 (pva s ra d)).
Proof.
  intros He Hr Hd. unfold preg_ok, pimm_ok in *. eapply eq_trans; [eapply den_bin; pden|]. cbn [sp_bin].
  unfold s_add, pva, Ppc.a32, Ppc.W, U. rewrite (cs_simm_mod d Hd).
  rewrite Zplus_mod_idemp_l. f_equal. f_equal. f_equal. apply Z.add_comm.
Qed.
Lemma pva_range s ra d : 0 <= pva s ra d < 2 ^ 32.
Proof. unfold pva, Ppc.a32, Ppc.W. apply Z.mod_pos_bound. lia. Qed.

Lemma pcovers_get m a n k : pcovers m a n -> 0 <= k < n -> exists b, bm_get m (a + k) = Some b.
Proof. intros H Hk. specialize (H k Hk). destruct (bm_get m (a + k)) as [b|]; [exists b; reflexivity|congruence]. Qed.

Lemma pa32_id x : 0 <= x < 2 ^ 32 -> Ppc.a32 x = x.
Proof. intros H. unfold Ppc.a32, Ppc.W. apply Z.mod_small. assumption. Qed.

Lemma pmem_load8 s st a : pemb s st -> 0 <= a < 2 ^ 32 -> pcovers (st_mem st) a 1 ->
  mem_load (st_mem st) a 8 = Ok (mkc 8 (Ppc.ld1 s a)).
Proof.
  intros He Ha Hc. unfold mem_load. change (8 mod 8 =? 0) with true. change (8 <=? 0) with false. change (8 / 8) with 1.
  cbn [negb orb]. unfold ADDR_LIMIT. destruct (Z.ltb_spec (2 ^ 64) (a + 1)); [lia|].
  destruct (pcovers_get _ _ _ 0 Hc ltac:(lia)) as [b0 H0]. rewrite Z.add_0_r in H0.
  change (Z.to_nat 1) with 1%nat. cbn [read_bytes]. rewrite H0. rewrite (pe_mem _ _ He _ _ H0).
  unfold Ppc.ld1, mb_. rewrite pa32_id by assumption. rewrite (pe_big _ _ He).
  unfold bytes_value. cbn [rev app le_value]. f_equal. f_equal. lia.
Qed.
Lemma pmem_load32 s st a : pemb s st -> 0 <= a -> a + 4 <= 2 ^ 32 -> pcovers (st_mem st) a 4 ->
  mem_load (st_mem st) a 32 = Ok (mkc 32 (Ppc.ld4 s a)).
Proof.
  intros He Ha Ha2 Hc. unfold mem_load. change (32 mod 8 =? 0) with true. change (32 / 8) with 4. change (32 <=? 0) with false. cbn [negb orb].
  unfold ADDR_LIMIT. destruct (Z.ltb_spec (2 ^ 64) (a + 4)); [lia|].
  destruct (pcovers_get _ _ _ 0 Hc ltac:(lia)) as [b0 H0]. rewrite Z.add_0_r in H0.
  destruct (pcovers_get _ _ _ 1 Hc ltac:(lia)) as [b1 H1].
  destruct (pcovers_get _ _ _ 2 Hc ltac:(lia)) as [b2 H2].
  destruct (pcovers_get _ _ _ 3 Hc ltac:(lia)) as [b3 H3].
  change (Z.to_nat 4) with 4%nat. cbn [read_bytes].
  replace (a + 1 + 1) with (a + 2) by lia. replace (a + 2 + 1) with (a + 3) by lia.
  rewrite H0, H1, H2, H3.
  rewrite (pe_mem _ _ He _ _ H0), (pe_mem _ _ He _ _ H1), (pe_mem _ _ He _ _ H2), (pe_mem _ _ He _ _ H3).
  unfold Ppc.ld4, mb_. rewrite !pa32_id by lia. rewrite (pe_big _ _ He).
  unfold bytes_value. cbn [rev app le_value]. f_equal. f_equal. lia.
Qed.

Lemma pstore4_emb s st a x : pemb s st -> 0 <= a -> a + 4 <= 2 ^ 32 ->
  pemb (Ppc.set_mem s (st4m (pmem s) a x))
       (mkst (st_env st) (mkbmem (bm_big (st_mem st))
          (if bm_big (st_mem st)
           then (a + 1 + 1 + 1, x mod 256) :: (a + 1 + 1, (x / 256) mod 256) :: (a + 1, (x / 256 / 256) mod 256) :: (a, (x / 256 / 256 / 256) mod 256) :: bm_bytes (st_mem st)
           else (a + 1 + 1 + 1, (x / 256 / 256 / 256) mod 256) :: (a + 1 + 1, (x / 256 / 256) mod 256) :: (a + 1, (x / 256) mod 256) :: (a, x mod 256) :: bm_bytes (st_mem st)))).
Proof.
  intros [A B C D E F G] Ha Ha2. rewrite F.
  constructor; cbn [st_env st_mem Ppc.set_mem pgpr plr pctr pca pcr pmem bm_big]; auto.
  unfold bm_get in *. cbn [bm_bytes]. unfold st4m, Ppc.wr.
  rewrite (pa32_id a), (pa32_id (a + 1)), (pa32_id (a + 2)), (pa32_id (a + 3)) by lia.
  change (2 ^ 24) with 16777216. change (2 ^ 16) with 65536. change (2 ^ 8) with 256.
  intros k b; cbn [bytes_get];
  repeat match goal with |- context [?p =? ?q] => destruct (Z.eqb_spec p q) end;
  intros Hk; try (exfalso; lia); try (inversion Hk; subst; lia); try (apply G; exact Hk).
Qed.

Theorem plwz_correct rt ra d : preg_ok rt -> preg_ok ra -> pimm_ok d -> pcorrect (PLwz rt ra d).
Proof.
  intros Ht Hr Hd a ts s st Hw He Hp Ha0 Ha Hts Hn Hso Hacc Htg.
  cbn [plift pstep paccess_ok] in *. unfold ra0. destruct (Z.eqb_spec ra 0) as [->|N]; [exact I|].
  fold (pva s ra d) in Hacc |- *. pose proof (pva_range s ra d) as Rv. set (va := pva s ra d) in *.
  unfold pb_lwz. rewrite pea_ok. cbn [bind].
  destruct (Z.ltb_spec Ppc.W (va + 4)) as [Hwrap|Hok]; [exact I|]. unfold Ppc.W in Hok.
  eapply pnext_post; try eassumption; [reflexivity| |apply pemb_setg; [eassumption|exact Ht]].
  rewrite run_single. cbn [number].
  erewrite run_load; [reflexivity|eapply den_pea; eassumption|exact Rv|apply pmem_load32; [eassumption|lia|lia|exact Hacc]].
Qed.

Theorem plbz_correct rt ra d : preg_ok rt -> preg_ok ra -> pimm_ok d -> pcorrect (PLbz rt ra d).
Proof.
  intros Ht Hr Hd a ts s st Hw He Hp Ha0 Ha Hts Hn Hso Hacc Htg.
  cbn [ptemps_need] in Hn. pose proof (ptmp_not_arch ts Hts Hn) as Ta.
  cbn [plift pstep paccess_ok] in *. unfold ra0. destruct (Z.eqb_spec ra 0) as [->|N]; [exact I|].
  fold (pva s ra d) in Hacc |- *. pose proof (pva_range s ra d) as Rv. set (va := pva s ra d) in *. set (t := nthN ts 0) in *.
  unfold pb_lbz. rewrite pea_ok. cbn [bind].
  change (mk_ext Zext 32 (EScalar (tmp t 8))) with (Ok (EExt Zext 32 (EScalar (tmp t 8)))). cbn [bind].
  eapply pnext_post; try eassumption; [reflexivity| |].
  - rewrite run_single. cbn [number].
    erewrite run_load; [|eapply den_pea; eassumption|exact Rv|apply pmem_load8; [eassumption|exact Rv|exact Hacc]].
    erewrite run_assign; [reflexivity|eapply eq_trans; [eapply den_ext; apply (den_tmp st t 8 _)|reflexivity]].
  - change (skey_of (tmp t 8)) with (t, @None BinNums.N). fold (kreg rt). unfold s_zext.
    apply pemb_setg; [|exact Ht]. apply pemb_set_other; assumption.
Qed.

Theorem plwzu_correct rt ra d : preg_ok rt -> preg_ok ra -> pimm_ok d -> pcorrect (PLwzu rt ra d).
Proof.
  intros Ht Hr Hd a ts s st Hw He Hp Ha0 Ha Hts Hn Hso Hacc Htg.
  cbn [plift pstep paccess_ok] in *. destruct (Z.eqb_spec ra 0) as [->|N]; [exact I|]. cbn [orb].
  destruct (Z.eqb_spec ra rt) as [->|Nrt]; [exact I|].
  fold (pva s ra d) in Hacc |- *. pose proof (pva_range s ra d) as Rv. set (va := pva s ra d) in *.
  unfold pb_lwzu. rewrite pea_ok. cbn [bind].
  destruct (Z.ltb_spec Ppc.W (va + 4)) as [Hwrap|Hok]; [exact I|]. unfold Ppc.W in Hok.
  eapply pnext_post; try eassumption; [reflexivity| |].
  - rewrite run_single. cbn [number].
    erewrite run_load; [|eapply den_pea; eassumption|exact Rv|apply pmem_load32; [eassumption|lia|lia|exact Hacc]].
    erewrite run_assign; [reflexivity|].
    assert (Nk : kreg rt <> kreg ra) by (apply kreg_neq; unfold preg_ok in *; lia).
    eapply eq_trans; [eapply den_bin; [rewrite den_const, new_big_32; reflexivity|rewrite den_frame_pexp by exact Nk; unfold preg_ok in *; pden]|].
    pose proof (den_pea s st ra d He Hr Hd) as D. unfold preg_ok in *.
    erewrite den_bin in D; [|rewrite den_const, new_big_32; reflexivity|pden]. exact D.
  - change (skey_of (preg rt)) with (kreg rt). change (skey_of (preg ra)) with (kreg ra).
    apply (pemb_setg (setg s rt _)); [|exact Hr]. apply pemb_setg; assumption.
Qed.

Theorem pstw_correct rs ra d : preg_ok rs -> preg_ok ra -> pimm_ok d -> pcorrect (PStw rs ra d).
Proof.
  intros Hs Hr Hd a ts s st Hw He Hp Ha0 Ha Hts Hn Hso Hacc Htg.
  cbn [plift pstep] in *. unfold ra0. destruct (Z.eqb_spec ra 0) as [->|N]; [exact I|].
  fold (pva s ra d). pose proof (pva_range s ra d) as Rv. set (va := pva s ra d) in *.
  unfold pb_stw. rewrite pea_ok. cbn [bind].
  destruct (Z.ltb_spec Ppc.W (va + 4)) as [Hwrap|Hok]; [exact I|]. unfold Ppc.W in Hok.
  eapply pnext_post; try eassumption; [reflexivity| |].
  - rewrite run_single. cbn [number].
    erewrite run_store; [reflexivity|unfold preg_ok in *; pden|eapply den_pea; eassumption|exact Rv|apply mem_store32; exact Rv].
  - apply pstore4_emb; [assumption|lia|lia].
Qed.

Theorem pstwu_correct rs ra d : preg_ok rs -> preg_ok ra -> pimm_ok d -> pcorrect (PStwu rs ra d).
Proof.
  intros Hs Hr Hd a ts s st Hw He Hp Ha0 Ha Hts Hn Hso Hacc Htg.
  cbn [plift pstep] in *. destruct (Z.eqb_spec ra 0) as [->|N]; [exact I|].
  fold (pva s ra d). pose proof (pva_range s ra d) as Rv. set (va := pva s ra d) in *.
  unfold pb_stwu. rewrite pea_ok. cbn [bind].
  destruct (Z.ltb_spec Ppc.W (va + 4)) as [Hwrap|Hok]; [exact I|]. unfold Ppc.W in Hok.
  eapply pnext_post; try eassumption; [reflexivity| |].
  - rewrite run_single. cbn [number].
    erewrite run_store; [|unfold preg_ok in *; pden|eapply den_pea; eassumption|exact Rv|apply mem_store32; exact Rv].
    erewrite run_assign; [reflexivity|]. cbn [st_env]. eapply den_pea; eassumption.
  - change (skey_of (preg ra)) with (kreg ra).
    apply (pemb_setg (Ppc.set_mem s _)); [|exact Hr]. apply pstore4_emb; [assumption|lia|lia].
Qed.

(* ------------------------------------------------------------------ srawi *)
Lemma den_ite en c t f b : den en c = Ok (mkc 1 b) ->
  den en (EIte c t f) = if b =? 1 then den en t else den en f.
Proof. intros H. cbn [den]. rewrite H. reflexivity. Qed.

Lemma sra_eq rs sh : sra (pexp rs) (expr_const sh 32) =
  Ok (EBin Or (EBin Shr (pexp rs) (expr_const sh 32))
        (EIte (EBin Cmplts (pexp rs) (expr_const 0 32))
              (EBin Shl (expr_const 18446744073709551615 32)
                        (EIte (EBin Cmpltu (expr_const 32 32) (expr_const sh 32)) (expr_const 0 32)
                              (EBin Sub (expr_const 32 32) (expr_const sh 32))))
              (expr_const 0 32))).
Proof. reflexivity. Qed.

Lemma ones_mod_pow sh : 0 <= sh <= 32 -> 4294967295 mod 2 ^ sh = 2 ^ sh - 1.
Proof.
  intros H. assert (P : 0 < 2 ^ sh) by (apply Z.pow_pos_nonneg; lia).
  assert (Q : 0 < 2 ^ (32 - sh)) by (apply Z.pow_pos_nonneg; lia).
  assert (E : 2 ^ 32 = 2 ^ (32 - sh) * 2 ^ sh) by (rewrite <- Z.pow_add_r by lia; f_equal; lia).
  symmetry. apply (Z.mod_unique_pos _ _ (2 ^ (32 - sh) - 1)); [lia|].
  change 4294967295 with (2 ^ 32 - 1). rewrite E. ring.
Qed.

Lemma sra_val x sh : 0 <= x < 2 ^ 32 -> 0 <= sh < 32 ->
  Z.lor (s_shr 32 x sh) (if S 32 x <? 0 then s_shl 32 4294967295 (32 - sh) else 0) = U 32 (S 32 x / 2 ^ sh).
Proof.
  intros Hx Hsh. unfold s_shr, s_shl, S. change (2 ^ (32 - 1)) with 2147483648.
  destruct (Z.leb_spec 32 sh); [lia|].
  assert (P : 0 < 2 ^ sh) by (apply Z.pow_pos_nonneg; lia).
  assert (Q : 0 < 2 ^ (32 - sh)) by (apply Z.pow_pos_nonneg; lia).
  assert (E : 2 ^ 32 = 2 ^ (32 - sh) * 2 ^ sh) by (rewrite <- Z.pow_add_r by lia; f_equal; lia).
  assert (D : 0 <= x / 2 ^ sh < 2 ^ (32 - sh)).
  { pose proof (div_lt_pow x (32 - sh) ltac:(lia) Hx) as D. replace (32 - (32 - sh)) with sh in D by lia. exact D. }
  destruct (Z.ltb_spec x 2147483648) as [Hpos|Hneg].
  - destruct (Z.ltb_spec x 0); [lia|]. rewrite Z.lor_0_r. symmetry. apply U_small.
    split; [lia|]. assert (2 ^ (32 - sh) <= 2 ^ 32) by (apply Z.pow_le_mono_r; lia). lia.
  - destruct (Z.ltb_spec (x - 2 ^ 32) 0); [|lia].
    destruct (Z.eqb_spec sh 0) as [->|N0].
    + change (32 <=? 32 - 0) with true. cbv iota. rewrite Z.lor_0_r. change (2 ^ 0) with 1. rewrite !Z.div_1_r.
      unfold U. rewrite <- (Z.mod_add _ 1) by lia. replace (x - 2 ^ 32 + 1 * 2 ^ 32) with x by lia. symmetry. apply Z.mod_small. assumption.
    + destruct (Z.leb_spec 32 (32 - sh)); [lia|].
      rewrite U32_mul_pow by lia. replace (32 - (32 - sh)) with sh by lia. rewrite ones_mod_pow by lia.
      rewrite Z.lor_comm. rewrite lor_add_disjoint by lia.
      replace (x - 2 ^ 32) with (x + (- 2 ^ (32 - sh)) * 2 ^ sh) by (rewrite E; ring).
      rewrite Z.div_add by lia. unfold U.
      rewrite <- (Z.mod_add _ 1) by lia. symmetry. rewrite Z.mod_small.
      * rewrite E. ring.
      * rewrite E. nia.
Qed.

Theorem psrawi_correct ra rs sh : preg_ok ra -> preg_ok rs -> 0 <= sh < 32 -> pcorrect (PSrawi ra rs sh).
Proof.
  intros Ht Hs Hsh a ts s st Hw He Hp Ha0 Ha Hts Hn Hso Hacc Htg. unfold preg_ok in *.
  destruct Hw as (Rg & _). pose proof (Rg rs) as Rs.
  assert (P : 0 < 2 ^ sh <= 2 ^ 32) by (split; [apply Z.pow_pos_nonneg; lia|apply Z.pow_le_mono_r; lia]).
  cbn [plift pstep]. unfold pb_srawi. rewrite sra_eq. rewrite !mk_bin_ok by reflexivity. cbn [bind].
  rewrite (Z.mod_small sh 32) by lia.
  set (x := pgpr s rs) in *.
  set (cv := b2z ((S 32 x <? 0) && negb (x mod 2 ^ sh =? 0))).
  set (rv := U 32 (S 32 x / 2 ^ sh)).
  assert (Dx : forall st', pemb s st' -> den (st_env st') (pexp rs) = Ok (mkc 32 x)) by (intros st' He'; subst x; pden).
  assert (Dneg : forall st', pemb s st' -> den (st_env st') (EBin Cmplts (pexp rs) (expr_const 0 32)) = Ok (mkc 1 (if S 32 x <? 0 then 1 else 0))).
  { intros st' He'. erewrite den_bin; [|apply Dx; exact He'|rewrite den_const, new_big_32; reflexivity]. reflexivity. }
  eapply pnext_post; try eassumption; [reflexivity| |].
  - rewrite run_single. cbn [number].
    erewrite run_assign with (v := mkc 1 cv).
    2: { erewrite den_bin; [|apply Dneg; exact He|].
         2: { erewrite den_bin; [|erewrite den_bin; [|apply Dx; exact He|rewrite den_const, new_big_32; reflexivity]; reflexivity
                                 |rewrite den_const, new_big_32; reflexivity]. reflexivity. }
         cbn [sp_bin]. unfold s_and, s_cmpneq, cv, b2z. change (0 mod 2 ^ 32) with 0.
         rewrite (Z.mod_small (2 ^ sh - 1)) by lia.
         replace (2 ^ sh - 1) with (Z.ones sh) by (rewrite Z.ones_equiv; lia). rewrite Z.land_ones by lia.
         destruct (S 32 x <? 0), (x mod 2 ^ sh =? 0); reflexivity. }
    set (st1 := set_env st (skey_of carry) (mkc 1 cv)).
    assert (He1 : pemb (set_ca s cv) st1) by (apply pemb_set_ca; assumption).
    assert (Dx1 : den (st_env st1) (pexp rs) = Ok (mkc 32 x)) by (unfold st1; rewrite den_frame_pexp by (unfold carry; cbn [skey_of sname sssa]; fold (kreg P_CA); kne); apply Dx; exact He).
    erewrite run_assign with (v := mkc 32 rv).
    2: { erewrite den_bin; [|erewrite den_bin; [|exact Dx1|rewrite den_const, new_big_32; reflexivity]; reflexivity|].
         2: { erewrite den_ite.
              2: { erewrite den_bin; [|exact Dx1|rewrite den_const, new_big_32; reflexivity]. reflexivity. }
              cbn [sp_bin]. unfold s_cmplts. change (0 mod 2 ^ 32) with 0. change (S 32 0) with 0.
              instantiate (1 := if S 32 x <? 0 then s_shl 32 4294967295 (32 - sh) else 0).
              destruct (S 32 x <? 0); cbn [Z.eqb Pos.eqb].
              - erewrite den_bin; [|rewrite den_const, new_big_32; reflexivity|].
                2: { erewrite den_ite.
                     2: { erewrite den_bin by (rewrite den_const, new_big_32; reflexivity). reflexivity. }
                     cbn [sp_bin]. unfold s_cmpltu. change (32 mod 2 ^ 32) with 32. rewrite (Z.mod_small sh) by (change (2 ^ 32) with 4294967296; lia).
                     destruct (Z.ltb_spec 32 sh); [lia|]. cbn [Z.eqb].
                     erewrite den_bin by (rewrite den_const, new_big_32; reflexivity). reflexivity. }
                cbn [sp_bin]. unfold s_sub. change (32 mod 2 ^ 32) with 32. rewrite (Z.mod_small sh) by (change (2 ^ 32) with 4294967296; lia).
                rewrite (U_small 32 (32 - sh)) by (change (2 ^ 32) with 4294967296; lia). reflexivity.
              - rewrite den_const, new_big_32. reflexivity. }
         cbn [sp_bin]. unfold s_or. rewrite (Z.mod_small sh) by (change (2 ^ 32) with 4294967296; lia).
         unfold rv. rewrite sra_val by assumption. reflexivity. }
    reflexivity.
  - unfold carry. cbn [skey_of sname sssa]. fold (kreg P_CA). fold (kreg ra).
    apply (pemb_setg (set_ca s cv)); [|exact Ht]. apply pemb_set_ca. assumption.
Qed.

(* ------------------------------------------------------------------ summary *)
Definition pfields_ok (i : pinstr) : Prop :=
  match i with
  | PAdd rt ra rb | PSubf rt ra rb | POr rt ra rb => preg_ok rt /\ preg_ok ra /\ preg_ok rb
  | PAddze rt ra => preg_ok rt /\ preg_ok ra
  | PAddi rt ra x | PAddis rt ra x | PLbz rt ra x | PLwz rt ra x | PLwzu rt ra x | PStw rt ra x | PStwu rt ra x => preg_ok rt /\ preg_ok ra /\ pimm_ok x
  | PCmpwi bf ra x | PCmplwi bf ra x => 0 <= bf <= 7 /\ preg_ok ra /\ pimm_ok x
  | PRlwinm ra rs sh mb me => preg_ok ra /\ preg_ok rs /\ preg_ok sh /\ preg_ok mb /\ preg_ok me
  | PSrawi ra rs sh => preg_ok ra /\ preg_ok rs /\ preg_ok sh
  | PMtspr _ r | PMfspr r _ => preg_ok r
  | PB li _ _ => 0 <= li < 2 ^ 24
  | _ => True
  end.

Theorem pproved_correct i : pproved i = true -> pfields_ok i -> pcorrect i.
Proof.
  intros Hp Hf. destruct i; try discriminate Hp; cbn [pfields_ok] in Hf.
  - destruct Hf as (A & B & C). apply padd_correct; assumption.
  - destruct Hf as (A & B & C). apply psubf_correct; assumption.
  - destruct Hf as (A & B). apply paddze_correct; assumption.
  - destruct Hf as (A & B & C). apply paddi_correct; assumption.
  - destruct Hf as (A & B & C). apply paddis_correct; assumption.
  - destruct Hf as (A & B & C). apply (pcmp_correct true); assumption.
  - destruct Hf as (A & B & C). apply (pcmp_correct false); assumption.
  - destruct Hf as (A & B & C). apply plbz_correct; assumption.
  - destruct Hf as (A & B & C). apply plwz_correct; assumption.
  - destruct Hf as (A & B & C). apply plwzu_correct; assumption.
  - destruct Hf as (A & B & C). apply pstw_correct; assumption.
  - destruct Hf as (A & B & C). apply pstwu_correct; assumption.
  - destruct Hf as (A & B & C). apply pmr_correct; assumption.
  - apply pnop_correct.
  - destruct Hf as (A & B & C & D & E). unfold preg_ok in *. apply prlwinm_correct; unfold preg_ok; lia.
  - destruct Hf as (A & B & C). unfold preg_ok in C. apply psrawi_correct; [assumption|assumption|lia].
  - apply pmtspr_correct; assumption.
  - apply pmfspr_correct; assumption.
  - apply pb_correct; assumption.
  - (* bc: the lifter accepts no such encoding; the mirror makes no claim *)
    intros a ts s st _ _ _ _ _ _ _ _ _ _. exact I.
  - apply pbclr_correct.
  - apply pbcctr_correct.
Qed.

Lemma pfields_okb_ok i : pfields_okb i = true -> pfields_ok i.
Proof.
  unfold pfields_okb, pfields_ok, prb, pib, preg_ok, pimm_ok. destruct i; intros H; try exact I;
    repeat (apply andb_true_iff in H; destruct H as [H ?]); repeat split; lia.
Qed.

(* the executable field test is exactly pfields_ok *)
Lemma pfields_okb_complete i : pfields_ok i -> pfields_okb i = true.
Proof.
  unfold pfields_okb, pfields_ok, prb, pib, preg_ok, pimm_ok. destruct i; intros H; try reflexivity; lia.
Qed.
