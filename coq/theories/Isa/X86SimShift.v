(* Isa/X86SimShift.v -- round 6, step 2: shl / shr / sar (imm8, cl and the implicit count 1; register and memory
   destinations): count masking, a zero count leaves every flag unchanged, CF / OF / ZF / SF otherwise. *)
From Coq Require Import ZArith List Bool NArith Lia ZifyBool.
From Falcon Require Import Base.Res IL.Const IL.ConstSpec IL.ConstProofs IL.Expr IL.ExprSpec IL.Func IL.Loc Exec.Sem.
From Falcon Require Import Isa.X86 Isa.X86Run Isa.X86Lift Isa.X86Mirror Isa.X86Proofs Isa.X86Sim Isa.C01Check Isa.X86Tie Isa.X86SimMem Isa.X86SimCarry Isa.X86SimMore Isa.X86SimXchg Isa.X86SimMul.
Import ListNotations.
Local Open Scope Z_scope.
Ltac Zify.zify_post_hook ::= Z.div_mod_to_equations.

(* ---------- arithmetic ---------- *)
Lemma b2z_odd x : X86.b2z (Z.odd x) = x mod 2.
Proof. rewrite Zmod_odd. destruct (Z.odd x); reflexivity. Qed.
Lemma bitb_testbit a n : 0 <= n -> X86.b2z (X86.bitb a n) = Z.b2z (Z.testbit a n).
Proof. intros Hn. unfold X86.bitb. rewrite b2z_odd. symmetry. apply Z.testbit_spec'. exact Hn. Qed.
Lemma lxor_b2z x y : Z.lxor (X86.b2z x) (X86.b2z y) = X86.b2z (xorb x y).
Proof. destruct x, y; reflexivity. Qed.
Lemma mod2_of_mod w x : 1 <= w -> (x mod 2 ^ w) mod 2 = x mod 2.
Proof.
  intros Hw. symmetry. apply Znumtheory.Zmod_div_mod; try lia.
  exists (2 ^ (w - 1)). replace w with (Z.succ (w - 1)) at 1 by lia. rewrite Z.pow_succ_r by lia. lia.
Qed.

(* shl: the last bit shifted out is the MSB of lhs << (c - 1) *)
Lemma shl_cf sz a c : 1 <= sz -> 0 <= a -> 1 <= c < sz ->
  (s_shl sz a (c - 1) / 2 ^ (sz - 1)) mod 2 = X86.b2z (X86.bitb a (sz - c)).
Proof.
  intros Hs Ha Hc. unfold s_shl. replace (sz <=? c - 1) with false by (symmetry; apply Z.leb_gt; lia).
  rewrite bitb_testbit by lia. rewrite <- Z.testbit_spec' by lia. f_equal. unfold U.
  rewrite Z.mod_pow2_bits_low by lia. rewrite Z.mul_pow2_bits by lia. f_equal. lia.
Qed.
(* shr: the LSB of lhs >> (c - 1) *)
Lemma shr_cf sz a c : 1 <= c -> c <= sz -> U 1 (s_shr sz a (c - 1)) = X86.b2z (X86.bitb a (c - 1)).
Proof.
  intros Hc Hl. unfold s_shr, U, X86.bitb. replace (sz <=? c - 1) with false by (symmetry; apply Z.leb_gt; lia).
  rewrite b2z_odd. reflexivity.
Qed.
(* sar: the LSB of lhs >>s (c - 1); the sign once everything has been shifted out *)
Lemma sar_cf sz a c : width_ok sz -> 0 <= a < 2 ^ sz -> 1 <= c ->
  U 1 (s_ashr sz a (c - 1)) = X86.b2z (if sz <=? c then X86.Sg sz a <? 0 else X86.bitb a (c - 1)).
Proof.
  intros Hw Ha Hc.
  assert (S1: 1 <= sz) by (destruct Hw as [->|[->|[->| ->]]]; lia).
  assert (Hsg: (X86.Sg sz a <? 0) = Z.testbit a (sz - 1)).
  { rewrite (msb_testbit a sz S1 Ha). destruct Hw as [->|[->|[->| ->]]]; unfold X86.Sg, ConstSpec.S in *; pows; split_ifs; lia. }
  unfold s_ashr, U. change (2 ^ 1) with 2. destruct (sz <=? c - 1) eqn:E1.
  - replace (sz <=? c) with true by (symmetry; apply Z.leb_le; lia).
    fold (X86.Sg sz a). destruct (X86.Sg sz a <? 0); [|reflexivity]. destruct Hw as [->|[->|[->| ->]]]; reflexivity.
  - apply Z.leb_gt in E1. rewrite (mod2_of_mod sz _ S1). fold (X86.Sg sz a).
    assert (Tb: (X86.Sg sz a / 2 ^ (c - 1)) mod 2 = Z.b2z (Z.testbit a (c - 1))).
    { rewrite <- Z.testbit_spec' by lia. f_equal.
      unfold X86.Sg, ConstSpec.S. destruct (a <? 2 ^ (sz - 1)); [reflexivity|].
      rewrite <- (Z.mod_pow2_bits_low (a - 2 ^ sz) sz (c - 1)) by lia.
      rewrite <- (Z.mod_pow2_bits_low a sz (c - 1)) by lia. f_equal.
      rewrite <- (Z.mod_add (a - 2 ^ sz) 1 (2 ^ sz)) by lia. f_equal. lia. }
    rewrite Tb. destruct (sz <=? c) eqn:E2.
    + apply Z.leb_le in E2. assert (c = sz) by lia. subst c. rewrite Hsg. reflexivity.
    + rewrite bitb_testbit by lia. reflexivity.
Qed.

Lemma shift_r_range (o : shop) sz a c : width_ok sz -> 0 <= a < 2 ^ sz -> 0 <= c ->
  0 <= (match o with SShl => s_shl sz a c | SShr => s_shr sz a c | _ => s_ashr sz a c end) < 2 ^ sz.
Proof.
  intros Hw Ha Hc.
  assert (Hp: 0 < 2 ^ sz) by (destruct Hw as [->|[->|[->| ->]]]; reflexivity).
  assert (Q: 0 <= a / 2 ^ c <= a) by (split; [apply Z.div_pos; lia|apply Z.div_le_upper_bound; try lia; assert (1 <= 2 ^ c) by lia; nia]).
  destruct o; unfold s_shl, s_shr, s_ashr, U; try (destruct (sz <=? c); [try lia|]; try (apply Z.mod_pos_bound; lia); try lia);
    try (destruct (ConstSpec.S sz a <? 0); lia).
Qed.

(* ---------- expressions built from clean leaves stay clean ---------- *)
Lemma clean_intro e : mentions kT0 e = false -> mentions kZF e = false -> mentions kSF e = false ->
  mentions kOF e = false -> mentions kCF e = false -> clean e = true.
Proof. intros A B C D E. unfold clean. rewrite A, B, C, D, E. reflexivity. Qed.
Lemma clean_bin o l r : clean l = true -> clean r = true -> clean (EBin o l r) = true.
Proof.
  intros Cl Cr. destruct (clean_parts _ Cl) as (L0 & L1 & L2 & L3 & L4). destruct (clean_parts _ Cr) as (R0 & R1 & R2 & R3 & R4).
  apply clean_intro; cbn [mentions]; rewrite ?L0, ?L1, ?L2, ?L3, ?L4, ?R0, ?R1, ?R2, ?R3, ?R4; reflexivity.
Qed.
Lemma clean_ext o b x : clean x = true -> clean (EExt o b x) = true.
Proof. intros C. destruct (clean_parts _ C) as (L0 & L1 & L2 & L3 & L4). apply clean_intro; cbn [mentions]; assumption. Qed.
Lemma clean_const v w : clean (expr_const v w) = true.
Proof. reflexivity. Qed.

Lemma const_den en v w : 0 <= w -> 0 <= v < 2 ^ w -> den en (expr_const v w) = Ok (mkc w v).
Proof. intros Hw Hv. unfold expr_const. rewrite new_big_spec by exact Hw. cbn [den]. unfold U. rewrite Z.mod_small by lia. reflexivity. Qed.

(* den of a clean expression is not affected by assignments to the flags *)
Lemma den_set_flag en k v e : clean e = true -> k = kCF \/ k = kOF \/ k = kZF \/ k = kSF -> den (env_set en k v) e = den en e.
Proof.
  intros C Hk. destruct (clean_parts _ C) as (L0 & L1 & L2 & L3 & L4). apply den_env_set.
  destruct Hk as [->|[->|[->| ->]]]; assumption.
Qed.

(* the most significant bit as an expression *)
Lemma msb_expr_den en sz e v : width_ok sz -> e_bits e = sz -> 0 <= v < 2 ^ sz -> den en e = Ok (mkc sz v) ->
  exists me, msb_expr e = Ok me /\ e_bits me = 1 /\ den en me = Ok (mkc 1 (X86.b2z (X86.msb sz v))) /\
             (clean e = true -> clean me = true).
Proof.
  intros Hw Be Hv De.
  assert (S1: 1 <= sz) by (destruct Hw as [->|[->|[->| ->]]]; lia).
  assert (Hp: sz - 1 < 2 ^ sz) by (destruct Hw as [->|[->|[->| ->]]]; pows; lia).
  exists (EExt Trun 1 (EBin Shr e (expr_const (sz - 1) sz))).
  assert (Q1: (sz <=? 1) = false) by (destruct Hw as [->|[->|[->| ->]]]; reflexivity).
  assert (Q0: (sz =? 0) = false) by (destruct Hw as [->|[->|[->| ->]]]; reflexivity).
  split.
  { unfold msb_expr, mk_bin. rewrite Be. cbn [e_bits expr_const new_big cbits]. rewrite Z.eqb_refl. cbn [negb bind]. unfold mk_ext. cbn [e_bits is_cmp]. rewrite Be, Q1, Q0. reflexivity. }
  split; [reflexivity|]. split.
  { cbn [den]. rewrite De, (const_den en (sz - 1) sz) by lia. cbn [bind]. unfold sp_bin_c. cbn [cbits cval]. rewrite Z.eqb_refl. cbn [negb sp_bin bind].
    unfold sp_ext. cbn [cbits cval]. rewrite Q1. unfold s_trun, s_shr, U. replace (sz <=? sz - 1) with false by (symmetry; apply Z.leb_gt; lia).
    change (2 ^ 1) with 2. rewrite (sf_correct sz v Hw Hv). reflexivity. }
  intros C. apply clean_ext. apply clean_bin; [exact C|reflexivity].
Qed.

Lemma msb_expr_all sz e : width_ok sz -> e_bits e = sz ->
  let me := EExt Trun 1 (EBin Shr e (expr_const (sz - 1) sz)) in
  msb_expr e = Ok me /\ e_bits me = 1 /\ (clean e = true -> clean me = true) /\
  forall en v, 0 <= v < 2 ^ sz -> den en e = Ok (mkc sz v) -> den en me = Ok (mkc 1 (X86.b2z (X86.msb sz v))).
Proof.
  intros Hw Be me.
  assert (Q1: (sz <=? 1) = false) by (destruct Hw as [->|[->|[->| ->]]]; reflexivity).
  assert (Q0: (sz =? 0) = false) by (destruct Hw as [->|[->|[->| ->]]]; reflexivity).
  split.
  { unfold msb_expr, mk_bin. rewrite Be. cbn [e_bits expr_const new_big cbits]. rewrite Z.eqb_refl. cbn [negb bind]. unfold mk_ext. cbn [e_bits is_cmp]. rewrite Be, Q1, Q0. reflexivity. }
  split; [reflexivity|]. split; [intros C; apply clean_ext; apply clean_bin; [exact C|reflexivity]|].
  intros en v Hv De. destruct (msb_expr_den en sz e v Hw Be Hv De) as (me' & Em & _ & Dm & _).
  assert (Em2: msb_expr e = Ok me).
  { unfold msb_expr, mk_bin. rewrite Be. cbn [e_bits expr_const new_big cbits]. rewrite Z.eqb_refl. cbn [negb bind]. unfold mk_ext. cbn [e_bits is_cmp]. rewrite Be, Q1, Q0. reflexivity. }
  rewrite Em in Em2. inversion Em2; subst me'. exact Dm.
Qed.

(* one flag assignment of the shift builders: the flag keeps its value when the masked count is zero *)
Lemma fuz_exec st n ce sz c ve v old :
  width_ok sz -> e_bits ce = sz -> den (st_env st) ce = Ok (mkc sz c) -> e_bits ve = 1 -> den (st_env st) ve = Ok (mkc 1 v) ->
  env_get (st_env st) (n, None) = Some (mkc 1 old) ->
  exists i, flag_unless_zero n ce ve = Ok (assign_flag n i) /\
    exec_ops st [assign_flag n i] = Ok (mkst (env_set (st_env st) (n, None) (mkc 1 (if c =? 0 then old else v))) (st_mem st)).
Proof.
  intros Hw Bc Dc Bv Dv Go.
  assert (W0: 0 <= sz) by (destruct Hw as [->|[->|[->| ->]]]; lia).
  assert (Hp: 0 < 2 ^ sz) by (destruct Hw as [->|[->|[->| ->]]]; reflexivity).
  set (z := EBin Cmpeq ce (expr_const 0 sz)).
  exists (EIte z (EScalar (flag_scalar n)) ve). split.
  { unfold flag_unless_zero, mk_bin. rewrite Bc. cbn [e_bits expr_const new_big cbits]. rewrite Z.eqb_refl. cbn [negb bind]. fold z.
    unfold mk_ite. cbn [e_bits is_cmp z flag_scalar sbits]. rewrite Bv. reflexivity. }
  assert (Dz: den (st_env st) z = Ok (mkc 1 (if c =? 0 then 1 else 0))).
  { unfold z. rewrite den_bin, Dc, (const_den _ 0 sz) by lia. cbn [bind]. unfold sp_bin_c. cbn [cbits cval]. rewrite Z.eqb_refl. reflexivity. }
  assert (Di: den (st_env st) (EIte z (EScalar (flag_scalar n)) ve) = Ok (mkc 1 (if c =? 0 then old else v))).
  { cbn [den]. rewrite Dz. cbn [bind cbits cval Z.eqb Pos.eqb negb]. destruct (c =? 0); cbn [Z.eqb Pos.eqb].
    - unfold skey_of, flag_scalar. cbn [sname sssa sbits]. rewrite Go. reflexivity.
    - exact Dv. }
  cbn [exec_ops]. unfold assign_flag. rewrite (exec_assign st _ _ _ Di). reflexivity.
Qed.

(* ---------- the masked count ---------- *)
Lemma masked_count_ok en sz csz eb cv : width_ok sz -> csz = 8 \/ csz = sz -> e_bits eb = csz -> 0 <= cv < 2 ^ csz ->
  den en eb = Ok (mkc csz cv) ->
  exists ce, masked_count sz eb = Ok ce /\ e_bits ce = sz /\ den en ce = Ok (mkc sz (cv mod cmask sz)) /\
             (clean eb = true -> clean ce = true).
Proof.
  intros Hw Hc Be Hv De.
  assert (L5: forall x, Z.land x 31 = x mod 32) by (intros x; change 31 with (Z.ones 5); rewrite Z.land_ones by lia; reflexivity).
  assert (L6: forall x, Z.land x 63 = x mod 64) by (intros x; change 63 with (Z.ones 6); rewrite Z.land_ones by lia; reflexivity).
  destruct Hw as [->|[->|[->| ->]]]; destruct Hc as [->| ->];
    (eexists; split; [unfold masked_count, mk_bin, mk_ext; rewrite Be; cbn; rewrite ?Be; cbn; reflexivity|]);
    (split; [cbn [e_bits is_cmp]; try exact Be; reflexivity|]);
    (split; [cbn [den]; rewrite De; cbn; unfold s_and, s_zext; cbn; rewrite ?L5, ?L6; reflexivity|]);
    intros C; repeat first [apply clean_ext | apply clean_bin | exact C | reflexivity].
Qed.

Definition shop3 (o : shop) : Prop := o = SShl \/ o = SShr \/ o = SSar.
Definition il_r (o : shop) (sz a c : Z) : Z := match o with SShl => s_shl sz a c | SShr => s_shr sz a c | _ => s_ashr sz a c end.
Definition il_cf (o : shop) (sz a c1 : Z) : Z :=
  match o with SShl => X86.b2z (X86.msb sz (s_shl sz a c1)) | SShr => U 1 (s_shr sz a c1) | _ => U 1 (s_ashr sz a c1) end.
Definition il_of (o : shop) (sz a c c1 : Z) : Z :=
  match o with SShl => Z.lxor (il_cf SShl sz a c1) (X86.b2z (X86.msb sz (s_shl sz a c))) | SShr => X86.b2z (X86.msb sz a) | _ => 0 end.
Definition flag_ok (f : flag) (v : Z) : Prop := match f with FB b => v = X86.b2z b | FU => True end.

Lemma den_shift en (o : shop) sz x y a c : shop3 o -> den en x = Ok (mkc sz a) -> den en y = Ok (mkc sz c) ->
  den en (EBin (shift_binop o) x y) = Ok (mkc sz (il_r o sz a c)).
Proof.
  intros H3 Dx Dy. rewrite den_bin, Dx, Dy. cbn [bind]. unfold sp_bin_c. cbn [cbits cval]. rewrite Z.eqb_refl. cbn [negb].
  destruct H3 as [->|[->| ->]]; reflexivity.
Qed.

(* the expressions of the builder and what they denote in any environment *)
Lemma shift_exprs (o : shop) sz ea ce : shop3 o -> width_ok sz -> e_bits ea = sz -> e_bits ce = sz -> clean ea = true -> clean ce = true ->
  exists e c1e pre cf of zfv sfv,
    mk_bin (shift_binop o) ea ce = Ok e /\ mk_bin Sub ce (expr_const 1 sz) = Ok c1e /\ mk_bin (shift_binop o) ea c1e = Ok pre /\
    (match o with SShl => msb_expr pre | _ => mk_ext Trun 1 pre end) = Ok cf /\
    (match o with SShl => me <- msb_expr e ;; mk_bin Xor cf me | SShr => msb_expr ea | _ => Ok (expr_const 0 1) end) = Ok of /\
    mk_bin Cmpeq e (expr_const 0 sz) = Ok zfv /\ msb_expr e = Ok sfv /\
    e_bits e = sz /\ e_bits cf = 1 /\ e_bits of = 1 /\ e_bits zfv = 1 /\ e_bits sfv = 1 /\
    clean e = true /\ clean cf = true /\ clean of = true /\ clean zfv = true /\ clean sfv = true /\
    forall en a c, 0 <= a < 2 ^ sz -> 0 <= c < 2 ^ sz -> den en ea = Ok (mkc sz a) -> den en ce = Ok (mkc sz c) ->
      let c1 := U sz (c - 1) in let r := il_r o sz a c in
      den en e = Ok (mkc sz r) /\ den en cf = Ok (mkc 1 (il_cf o sz a c1)) /\ den en of = Ok (mkc 1 (il_of o sz a c c1)) /\
      den en zfv = Ok (mkc 1 (X86.b2z (r =? 0))) /\ den en sfv = Ok (mkc 1 (X86.b2z (X86.msb sz r))).
Proof.
  intros H3 Hw Ba Bc Ca Cc.
  assert (W0: 0 <= sz) by (destruct Hw as [->|[->|[->| ->]]]; lia).
  assert (H1: 0 <= 1 < 2 ^ sz) by (destruct Hw as [->|[->|[->| ->]]]; pows; lia).
  assert (Hp: 0 < 2 ^ sz) by lia.
  assert (Q1: (sz <=? 1) = false) by (destruct Hw as [->|[->|[->| ->]]]; reflexivity).
  assert (Q0: (sz =? 0) = false) by (destruct Hw as [->|[->|[->| ->]]]; reflexivity).
  assert (Nc: is_cmp (shift_binop o) = false) by (destruct H3 as [->|[->| ->]]; reflexivity).
  set (op := shift_binop o) in *.
  set (e := EBin op ea ce). set (c1e := EBin Sub ce (expr_const 1 sz)). set (pre := EBin op ea c1e).
  assert (Be: e_bits e = sz) by (unfold e; cbn [e_bits]; rewrite Nc; exact Ba).
  assert (Bc1: e_bits c1e = sz) by (unfold c1e; cbn [e_bits is_cmp]; exact Bc).
  assert (Bp: e_bits pre = sz) by (unfold pre; cbn [e_bits]; rewrite Nc; exact Ba).
  assert (Ce: clean e = true) by (apply clean_bin; assumption).
  assert (Cc1: clean c1e = true) by (apply clean_bin; [assumption|reflexivity]).
  assert (Cp: clean pre = true) by (apply clean_bin; assumption).
  assert (E1: mk_bin op ea ce = Ok e) by (unfold mk_bin; rewrite Ba, Bc, Z.eqb_refl; reflexivity).
  assert (E2: mk_bin Sub ce (expr_const 1 sz) = Ok c1e) by (unfold mk_bin; rewrite Bc; cbn [e_bits expr_const new_big cbits]; rewrite Z.eqb_refl; reflexivity).
  assert (E3: mk_bin op ea c1e = Ok pre) by (unfold mk_bin; rewrite Ba, Bc1, Z.eqb_refl; reflexivity).
  set (zfv := EBin Cmpeq e (expr_const 0 sz)).
  assert (E6: mk_bin Cmpeq e (expr_const 0 sz) = Ok zfv) by (unfold mk_bin; rewrite Be; cbn [e_bits expr_const new_big cbits]; rewrite Z.eqb_refl; reflexivity).
  (* generic denotations *)
  assert (De: forall en a c, den en ea = Ok (mkc sz a) -> den en ce = Ok (mkc sz c) -> den en e = Ok (mkc sz (il_r o sz a c))).
  { intros en a c Da Dc. apply den_shift; assumption. }
  assert (Dc1: forall en c, 0 <= c < 2 ^ sz -> den en ce = Ok (mkc sz c) -> den en c1e = Ok (mkc sz (U sz (c - 1)))).
  { intros en c Hc Dc. unfold c1e. rewrite den_bin, Dc, (const_den en 1 sz W0 H1). cbn [bind]. unfold sp_bin_c. cbn [cbits cval]. rewrite Z.eqb_refl. reflexivity. }
  assert (Dp: forall en a c, 0 <= c < 2 ^ sz -> den en ea = Ok (mkc sz a) -> den en ce = Ok (mkc sz c) -> den en pre = Ok (mkc sz (il_r o sz a (U sz (c - 1))))).
  { intros en a c Hc Da Dc. apply den_shift; [exact H3|exact Da|apply Dc1; assumption]. }
  assert (Dz: forall en a c, den en ea = Ok (mkc sz a) -> den en ce = Ok (mkc sz c) -> den en zfv = Ok (mkc 1 (X86.b2z (il_r o sz a c =? 0)))).
  { intros en a c Da Dc. unfold zfv. rewrite den_bin, (De en a c Da Dc), (const_den en 0 sz W0) by lia. cbn [bind]. unfold sp_bin_c. cbn [cbits cval]. rewrite Z.eqb_refl.
    cbn [negb sp_bin]. unfold s_cmpeq. destruct (il_r o sz a c =? 0); reflexivity. }
  assert (Rr: forall a c, 0 <= a < 2 ^ sz -> 0 <= c -> 0 <= il_r o sz a c < 2 ^ sz).
  { intros a c Ha Hc. pose proof (shift_r_range o sz a c Hw Ha Hc) as R. unfold il_r. destruct H3 as [->|[->| ->]]; exact R. }
  assert (Uc: forall c, 0 <= U sz (c - 1)) by (intros c; unfold U; pose proof (Z.mod_pos_bound (c - 1) (2 ^ sz) Hp); lia).
  assert (Dtr: forall en x v, e_bits x = sz -> den en x = Ok (mkc sz v) -> den en (EExt Trun 1 x) = Ok (mkc 1 (U 1 v))).
  { intros en x v Bx Dx. cbn [den]. rewrite Dx. cbn [bind]. unfold sp_ext. cbn [cbits cval]. rewrite Q1. reflexivity. }
  assert (Etr: forall x, e_bits x = sz -> mk_ext Trun 1 x = Ok (EExt Trun 1 x)) by (intros x Bx; unfold mk_ext; rewrite Bx, Q1, Q0; reflexivity).
  destruct (msb_expr_all sz e Hw Be) as (Es & Bs & Cs & Ds). set (sfv := EExt Trun 1 (EBin Shr e (expr_const (sz - 1) sz))) in *.
  destruct H3 as [->|[->| ->]]; cbn [shift_binop] in *.
  - (* shl *)
    destruct (msb_expr_all sz pre Hw Bp) as (Ef & Bf & Cf & Df). set (cf := EExt Trun 1 (EBin Shr pre (expr_const (sz - 1) sz))) in *.
    set (of := EBin Xor cf sfv).
    exists e, c1e, pre, cf, of, zfv, sfv.
    split; [exact E1|]. split; [exact E2|]. split; [exact E3|]. split; [exact Ef|].
    split; [rewrite Es; cbn [bind]; unfold mk_bin; rewrite Bf, Bs; reflexivity|]. split; [exact E6|]. split; [exact Es|].
    split; [exact Be|]. split; [exact Bf|]. split; [reflexivity|]. split; [reflexivity|]. split; [exact Bs|].
    split; [exact Ce|]. split; [exact (Cf Cp)|]. split; [apply clean_bin; [exact (Cf Cp)|exact (Cs Ce)]|]. split; [apply clean_bin; [exact Ce|reflexivity]|]. split; [exact (Cs Ce)|].
    intros en a c Ha Hc Da Dc. cbv zeta. set (c1 := U sz (c - 1)). set (r := il_r _ sz a c).
    pose proof (Ds en _ (Rr a c Ha ltac:(lia)) (De en a c Da Dc)) as DS.
    pose proof (Df en _ (Rr a c1 Ha (Uc c)) (Dp en a c Hc Da Dc)) as DF.
    split; [exact (De en a c Da Dc)|]. split; [exact DF|]. split; [|split; [exact (Dz en a c Da Dc)|exact DS]].
    unfold of. rewrite den_bin, DF, DS. reflexivity.
  - (* shr *)
    destruct (msb_expr_all sz ea Hw Ba) as (Eo & Bo & Co & Do). set (of := EExt Trun 1 (EBin Shr ea (expr_const (sz - 1) sz))) in *.
    exists e, c1e, pre, (EExt Trun 1 pre), of, zfv, sfv.
    split; [exact E1|]. split; [exact E2|]. split; [exact E3|]. split; [exact (Etr pre Bp)|].
    split; [exact Eo|]. split; [exact E6|]. split; [exact Es|].
    split; [exact Be|]. split; [reflexivity|]. split; [exact Bo|]. split; [reflexivity|]. split; [exact Bs|].
    split; [exact Ce|]. split; [apply clean_ext; exact Cp|]. split; [exact (Co Ca)|]. split; [apply clean_bin; [exact Ce|reflexivity]|]. split; [exact (Cs Ce)|].
    intros en a c Ha Hc Da Dc. cbv zeta. set (c1 := U sz (c - 1)). set (r := il_r _ sz a c).
    split; [exact (De en a c Da Dc)|]. split; [exact (Dtr en pre _ Bp (Dp en a c Hc Da Dc))|]. split; [exact (Do en a Ha Da)|].
    split; [exact (Dz en a c Da Dc)|exact (Ds en _ (Rr a c Ha ltac:(lia)) (De en a c Da Dc))].
  - (* sar *)
    exists e, c1e, pre, (EExt Trun 1 pre), (expr_const 0 1), zfv, sfv.
    split; [exact E1|]. split; [exact E2|]. split; [exact E3|]. split; [exact (Etr pre Bp)|].
    split; [reflexivity|]. split; [exact E6|]. split; [exact Es|].
    split; [exact Be|]. split; [reflexivity|]. split; [reflexivity|]. split; [reflexivity|]. split; [exact Bs|].
    split; [exact Ce|]. split; [apply clean_ext; exact Cp|]. split; [reflexivity|]. split; [apply clean_bin; [exact Ce|reflexivity]|]. split; [exact (Cs Ce)|].
    intros en a c Ha Hc Da Dc. cbv zeta. set (c1 := U sz (c - 1)). set (r := il_r _ sz a c).
    split; [exact (De en a c Da Dc)|]. split; [exact (Dtr en pre _ Bp (Dp en a c Hc Da Dc))|]. split; [apply zero_const_den|].
    split; [exact (Dz en a c Da Dc)|exact (Ds en _ (Rr a c Ha ltac:(lia)) (De en a c Da Dc))].
Qed.

(* ---------- Mode::operand_store for any mirrored destination, with new flags ---------- *)
Lemma write_operand m s st st2 dst sz r ve (fl' : flags) s' :
  wf m s -> emb m s st -> opnd_ok m sz dst -> isreg dst = true \/ is_mem dst = true -> width_ok sz -> opnd_nw sz dst s ->
  0 <= r < 2 ^ sz -> e_bits ve = sz -> den (st_env st2) ve = Ok (mkc sz r) ->
  (forall r0, 0 <= r0 < ngpr m -> env_get (st_env st2) (gpr_name m r0, None) = env_get (st_env st) (gpr_name m r0, None)) ->
  env_get (st_env st2) kDF = env_get (st_env st) kDF -> st_mem st2 = st_mem st -> f_df fl' = f_df (x_fl s) ->
  emb_flag (f_cf fl') (st_env st2) kCF -> emb_flag (f_zf fl') (st_env st2) kZF ->
  emb_flag (f_sf fl') (st_env st2) kSF -> emb_flag (f_of fl') (st_env st2) kOF ->
  option_map (fun s1 => set_fl s1 fl') (wr_op sz dst r s) = Some s' ->
  exists sto st3, ost m sz dst ve = Ok sto /\ sto <> [] /\ nobranch sto = true /\ (length sto <= 1)%nat /\
                  exec_ops st2 sto = Ok st3 /\ emb m s' st3 /\ wf m s'.
Proof.
  intros Hw He Hd Hk Hwd Hnw Hr Bv Dv Fr Fd Hm Hdf Ec Ez Es Eo Hs'.
  destruct Hk as [Hi|Im].
  - assert (Hro: reg_operand_ok m sz dst) by (destruct dst; try discriminate; exact Hd).
    destruct (reg_operand_shape m sz dst Hro) as (sd & Hs & Hrr & _).
    destruct (finish_reg m s st st2 dst sz sd r ve fl' Hw He Hrr Hi Hs Hr Bv Dv Fr Fd Hm Hdf Ec Ez Es Eo)
      as (o1 & st3 & s2 & Hops & Ia & Hex3 & Hwr & Hemb & Hwf).
    rewrite Hwr in Hs'. inversion Hs'; subst s2.
    exists [o1], st3. split; [rewrite (ost_reg _ _ _ _ Hi); exact Hops|]. split; [discriminate|].
    split; [cbn; destruct o1; try discriminate Ia; reflexivity|]. split; [cbn; lia|]. auto.
  - assert (Hmd: mem_operand_ok m dst) by (destruct dst; try discriminate; exact Hd).
    assert (Hnw': no_wrap sz dst s) by (destruct dst; try discriminate; exact Hnw).
    destruct (addr_expr_correct m dst s st Hw He Hmd) as (ae & Ea & _ & _).
    destruct (finish_mem m s st st2 dst sz r ae ve fl' Hw He Hmd Hwd Hnw' Ea Hr Dv Fr Fd Hm Hdf Ec Ez Es Eo s' Hs') as (st3 & Hex3 & Hemb & Hwf).
    exists [OStore ae ve], st3. split; [apply ost_mem; assumption|]. split; [discriminate|]. split; [reflexivity|]. split; [cbn; lia|]. auto.
Qed.

Lemma emb_flag_of_value f en k v : env_get en k = Some (mkc 1 v) -> flag_ok f v -> emb_flag f en k.
Proof. destruct f; cbn [emb_flag flag_ok]; intros G H; [rewrite G, H; reflexivity|eexists; exact G]. Qed.
Lemma emb_flag_value f en k : emb_flag f en k -> exists old, env_get en k = Some (mkc 1 old) /\ flag_ok f old.
Proof. destruct f; cbn [emb_flag flag_ok]; intros H; [eexists; split; [exact H|reflexivity]|destruct H as [v H]; exists v; split; [exact H|exact I]]. Qed.

Lemma il_r_zero (o : shop) sz a : shop3 o -> width_ok sz -> 0 <= a < 2 ^ sz -> il_r o sz a 0 = a.
Proof.
  intros H3 Hw Ha. assert (Q: (sz <=? 0) = false) by (destruct Hw as [->|[->|[->| ->]]]; reflexivity).
  destruct H3 as [->|[->| ->]]; unfold il_r, s_shl, s_shr, s_ashr, U; rewrite Q; change (2 ^ 0) with 1.
  - rewrite Z.mul_1_r. apply Z.mod_small. exact Ha.
  - apply Z.div_1_r.
  - rewrite Z.div_1_r. destruct Hw as [->|[->|[->| ->]]]; unfold ConstSpec.S in *; pows; split_ifs; lia.
Qed.

(* the specification's result and flags in terms of the values the IL computes *)
Lemma shift_spec (o : shop) sz a cv f : shop3 o -> width_ok sz -> 0 <= a < 2 ^ sz ->
  let c := cv mod cmask sz in
  (c = 0 /\ shift o sz a cv f = (a, f)) \/
  (c <> 0 /\ exists f', shift o sz a cv f = (il_r o sz a c, f') /\
     flag_ok (f_cf f') (il_cf o sz a (c - 1)) /\ flag_ok (f_of f') (il_of o sz a c (c - 1)) /\
     f_zf f' = FB (il_r o sz a c =? 0) /\ f_sf f' = FB (X86.msb sz (il_r o sz a c)) /\ f_df f' = f_df f).
Proof.
  intros H3 Hw Ha c.
  assert (S1: 1 <= sz) by (destruct Hw as [->|[->|[->| ->]]]; lia).
  assert (Hc: 0 <= c < 64) by (unfold c, cmask; destruct (sz =? 64); [apply Z.mod_pos_bound; lia|pose proof (Z.mod_pos_bound cv 32 ltac:(lia)); lia]).
  unfold shift. fold c. destruct (c =? 0) eqn:E0; [left; split; [apply Z.eqb_eq; exact E0|reflexivity]|right].
  apply Z.eqb_neq in E0. split; [exact E0|].
  assert (Msb: X86.b2z (X86.msb sz a) = X86.b2z (X86.bitb a (sz - 1))).
  { rewrite bitb_testbit by lia. rewrite (msb_testbit a sz S1 Ha). reflexivity. }
  destruct H3 as [->|[->| ->]]; (eexists; split; [reflexivity|]); cbn [fl_arith f_cf f_of f_zf f_sf f_df il_r il_cf il_of].
  - split.
    { destruct (sz <=? c) eqn:E; cbn [flag_ok]; [exact I|]. apply Z.leb_gt in E.
      rewrite <- (sf_correct sz (s_shl sz a (c - 1)) Hw (shift_r_range SShl sz a (c - 1) Hw Ha ltac:(lia))).
      apply shl_cf; lia. }
    split; [|repeat split].
    destruct (c =? 1) eqn:E1; cbn [flag_ok]; [|exact I]. apply Z.eqb_eq in E1. rewrite E1. change (1 - 1) with 0.
    assert (Q: s_shl sz a 0 = a) by (apply (il_r_zero SShl sz a (or_introl eq_refl) Hw Ha)). rewrite Q, Msb, lxor_b2z.
    f_equal. rewrite xorb_comm. f_equal.
  - split.
    { destruct (sz <=? c) eqn:E; cbn [flag_ok]; [exact I|]. apply Z.leb_gt in E. apply shr_cf; lia. }
    split; [|repeat split]. destruct (c =? 1); cbn [flag_ok]; [reflexivity|exact I].
  - split.
    { rewrite (sar_cf sz a c Hw Ha ltac:(lia)). fold (X86.Sg sz a). destruct (sz <=? c); reflexivity. }
    split; [|repeat split]. destruct (c =? 1); cbn [flag_ok]; [reflexivity|exact I].
Qed.

Lemma den4 en v1 v2 v3 v4 e : clean e = true ->
  den (env_set (env_set (env_set (env_set en kCF v1) kOF v2) kZF v3) kSF v4) e = den en e.
Proof. intros C. rewrite !den_set_flag by (try exact C; auto). reflexivity. Qed.

(* the builder for shl / shr / sar on any mirrored destination and count operand *)
Lemma shift_gen m addr nx (o : shop) sz csz dst cnt s st a cv s' :
  wf m s -> emb m s st -> shop3 o -> width_ok sz -> width_ok csz -> csz = 8 \/ csz = sz ->
  opnd_ok m sz dst -> isreg dst = true \/ is_mem dst = true -> opnd_ok m csz cnt -> is_mem cnt = false ->
  opnd_nw sz dst s -> rd_op sz dst s = Some a -> rd_op csz cnt s = Some cv ->
  (let '(r, f') := shift o sz a cv (x_fl s) in option_map (fun s0 => set_fl s0 f') (wr_op sz dst r s)) = Some s' ->
  exists ops st', lift_shift m o sz csz dst cnt = Some (Ok ops) /\ opnd_mirrored m dst = true /\
    run_instr 600 (one_block addr ops) [(nx, None)] addr st = RunOk st' (Some nx) /\ emb m s' st' /\ wf m s'.
Proof.
  intros Hw He H3 Hwd Hwc Hcs Hod Hk Hoc Hcm Hnw Hra Hrc Hs'.
  assert (Hnc: opnd_nw csz cnt s) by (destruct cnt; try discriminate; exact I).
  destruct (read2 m sz csz dst cnt s st a cv Hw He Hod Hoc (or_intror Hcm) Hwd Hwc Hnw Hnc Hra Hrc)
    as (pa & ea & pb & eb & st1 & Oa & Ob & Ma & _ & Nb & Ln & Ex1 & He1 & (Ba & Ha & Da & Ca & _) & (Bb & Hcv & Db & Cb & _)).
  destruct (masked_count_ok (st_env st1) sz csz eb cv Hwd Hcs Bb Hcv Db) as (ce & Emc & Bce & Dce & Cce). specialize (Cce Cb).
  set (c := cv mod cmask sz) in *.
  assert (Hc: 0 <= c < 64) by (unfold c, cmask; destruct (sz =? 64); [apply Z.mod_pos_bound; lia|pose proof (Z.mod_pos_bound cv 32 ltac:(lia)); lia]).
  assert (Hc2: 0 <= c < 2 ^ sz) by (destruct Hwd as [->|[->|[->| ->]]]; pows; lia).
  destruct (shift_exprs o sz ea ce H3 Hwd Ba Bce Ca Cce)
    as (e & c1e & pre & cf & of & zfv & sfv & E1 & E2 & E3 & E4 & E5 & E6 & E7 & Be & Bcf & Bof & Bz & Bs & Ce & Ccf & Cof & Cz & Cs & DEN).
  set (en0 := st_env st1) in *.
  destruct (DEN en0 a c Ha Hc2 Da Dce) as (De0 & Dcf0 & Dof0 & Dz0 & Ds0).
  set (c1 := U sz (c - 1)) in *. set (r := il_r o sz a c) in *.
  destruct (emb_flag_value _ _ _ (emb_cf _ _ _ He1)) as (oc & Gc & Fc). destruct (emb_flag_value _ _ _ (emb_of _ _ _ He1)) as (oo & Go & Fo).
  destruct (emb_flag_value _ _ _ (emb_zf _ _ _ He1)) as (oz & Gz & Fz). destruct (emb_flag_value _ _ _ (emb_sf _ _ _ He1)) as (os & Gs & Fs).
  fold en0 in Gc, Go, Gz, Gs.
  (* CF *)
  destruct (fuz_exec st1 X86Lift.n_CF ce sz c cf _ oc Hwd Bce Dce Bcf Dcf0 Gc) as (i1 & F1 & X1).
  set (v1 := mkc 1 (if c =? 0 then oc else il_cf o sz a c1)) in *. change (X86Lift.n_CF, @None N) with kCF in X1. fold en0 in X1.
  set (sa := mkst (env_set en0 kCF v1) (st_mem st1)) in *.
  assert (D1c: den (st_env sa) ce = Ok (mkc sz c)) by (unfold sa; cbn [st_env]; rewrite den_set_flag by auto; exact Dce).
  assert (D1o: den (st_env sa) of = Ok (mkc 1 (il_of o sz a c c1))) by (unfold sa; cbn [st_env]; rewrite den_set_flag by auto; exact Dof0).
  assert (G1o: env_get (st_env sa) (X86Lift.n_OF, None) = Some (mkc 1 oo)).
  { unfold sa. cbn [st_env]. rewrite env_get_set_other by (flagkeys; congruence). exact Go. }
  (* OF *)
  destruct (fuz_exec sa X86Lift.n_OF ce sz c of _ oo Hwd Bce D1c Bof D1o G1o) as (i2 & F2 & X2).
  set (v2 := mkc 1 (if c =? 0 then oo else il_of o sz a c c1)) in *. change (X86Lift.n_OF, @None N) with kOF in X2.
  set (sb := mkst (env_set (st_env sa) kOF v2) (st_mem sa)) in *.
  assert (D2c: den (st_env sb) ce = Ok (mkc sz c)) by (unfold sb; cbn [st_env]; rewrite den_set_flag by auto; exact D1c).
  assert (D2z: den (st_env sb) zfv = Ok (mkc 1 (X86.b2z (r =? 0)))).
  { unfold sb, sa. cbn [st_env]. rewrite !den_set_flag by auto. exact Dz0. }
  assert (G2z: env_get (st_env sb) (X86Lift.n_ZF, None) = Some (mkc 1 oz)).
  { unfold sb, sa. cbn [st_env]. rewrite !env_get_set_other by (flagkeys; congruence). exact Gz. }
  (* ZF *)
  destruct (fuz_exec sb X86Lift.n_ZF ce sz c zfv _ oz Hwd Bce D2c Bz D2z G2z) as (i3 & F3 & X3).
  set (v3 := mkc 1 (if c =? 0 then oz else X86.b2z (r =? 0))) in *. change (X86Lift.n_ZF, @None N) with kZF in X3.
  set (sc := mkst (env_set (st_env sb) kZF v3) (st_mem sb)) in *.
  assert (D3c: den (st_env sc) ce = Ok (mkc sz c)) by (unfold sc; cbn [st_env]; rewrite den_set_flag by auto; exact D2c).
  assert (D3s: den (st_env sc) sfv = Ok (mkc 1 (X86.b2z (X86.msb sz r)))).
  { unfold sc, sb, sa. cbn [st_env]. rewrite !den_set_flag by auto. exact Ds0. }
  assert (G3s: env_get (st_env sc) (X86Lift.n_SF, None) = Some (mkc 1 os)).
  { unfold sc, sb, sa. cbn [st_env]. rewrite !env_get_set_other by (flagkeys; congruence). exact Gs. }
  (* SF *)
  destruct (fuz_exec sc X86Lift.n_SF ce sz c sfv _ os Hwd Bce D3c Bs D3s G3s) as (i4 & F4 & X4).
  set (v4 := mkc 1 (if c =? 0 then os else X86.b2z (X86.msb sz r))) in *. change (X86Lift.n_SF, @None N) with kSF in X4.
  set (st2 := mkst (env_set (st_env sc) kSF v4) (st_mem sc)) in *.
  assert (En4: st_env st2 = env_set (env_set (env_set (env_set en0 kCF v1) kOF v2) kZF v3) kSF v4) by reflexivity.
  assert (D4e: den (st_env st2) e = Ok (mkc sz r)) by (rewrite En4, den4 by exact Ce; exact De0).
  assert (Fk: forall k, k <> kCF -> k <> kOF -> k <> kZF -> k <> kSF -> env_get (st_env st2) k = env_get en0 k).
  { intros k K1 K2 K3 K4. rewrite En4. rewrite !env_get_set_other by assumption. reflexivity. }
  assert (Fr: forall r0, 0 <= r0 < ngpr m -> env_get (st_env st2) (gpr_name m r0, None) = env_get (st_env st1) (gpr_name m r0, None)).
  { intros r0 Hr0. destruct (reg_key_facts m r0 Hr0) as (_ & K1 & K2 & K3 & K4 & _). apply Fk; assumption. }
  assert (Fd: env_get (st_env st2) kDF = env_get (st_env st1) kDF) by (apply Fk; flagkeys; congruence).
  assert (G4c: env_get (st_env st2) kCF = Some v1) by (rewrite En4; rewrite !env_get_set_other by (flagkeys; congruence); apply env_get_set_same).
  assert (G4o: env_get (st_env st2) kOF = Some v2) by (rewrite En4; rewrite !env_get_set_other by (flagkeys; congruence); apply env_get_set_same).
  assert (G4z: env_get (st_env st2) kZF = Some v3) by (rewrite En4; rewrite !env_get_set_other by (flagkeys; congruence); apply env_get_set_same).
  assert (G4s: env_get (st_env st2) kSF = Some v4) by (rewrite En4; apply env_get_set_same).
  assert (Rr: 0 <= r < 2 ^ sz).
  { pose proof (shift_r_range o sz a c Hwd Ha ltac:(lia)) as R. unfold r, il_r. destruct H3 as [->|[->| ->]]; exact R. }
  (* the specification *)
  assert (Fin: exists fl', (let '(r0, f') := shift o sz a cv (x_fl s) in option_map (fun s0 => set_fl s0 f') (wr_op sz dst r0 s))
                            = option_map (fun s0 => set_fl s0 fl') (wr_op sz dst r s) /\ f_df fl' = f_df (x_fl s) /\
                 emb_flag (f_cf fl') (st_env st2) kCF /\ emb_flag (f_zf fl') (st_env st2) kZF /\
                 emb_flag (f_sf fl') (st_env st2) kSF /\ emb_flag (f_of fl') (st_env st2) kOF).
  { destruct (shift_spec o sz a cv (x_fl s) H3 Hwd Ha) as [(C0 & Sp)|(C0 & f' & Sp & Kc & Ko & Kz & Ks & Kd)]; fold c in C0.
    - exists (x_fl s). rewrite Sp. assert (Ra: r = a) by (unfold r; rewrite C0; apply il_r_zero; assumption). rewrite Ra.
      split; [reflexivity|]. split; [reflexivity|]. unfold v1, v2, v3, v4 in *. rewrite C0 in *. cbn [Z.eqb] in *.
      split; [apply (emb_flag_of_value _ _ _ oc G4c Fc)|]. split; [apply (emb_flag_of_value _ _ _ oz G4z Fz)|].
      split; [apply (emb_flag_of_value _ _ _ os G4s Fs)|apply (emb_flag_of_value _ _ _ oo G4o Fo)].
    - exists f'. rewrite Sp. fold r. split; [reflexivity|]. split; [exact Kd|].
      assert (E0: (c =? 0) = false) by (apply Z.eqb_neq; exact C0).
      assert (C1: c1 = c - 1) by (unfold c1, U; apply Z.mod_small; lia).
      unfold v1, v2, v3, v4 in *. rewrite E0, C1 in *.
      split; [apply (emb_flag_of_value _ _ _ _ G4c Kc)|]. fold r in Kz, Ks. rewrite Kz, Ks. cbn [emb_flag].
      split; [exact G4z|]. split; [exact G4s|apply (emb_flag_of_value _ _ _ _ G4o Ko)]. }
  destruct Fin as (fl' & Hsp & Hdf & Ec & Ez & Es & Eo). rewrite Hsp in Hs'.
  destruct (write_operand m s st1 st2 dst sz r e fl' s' Hw He1 Hod Hk Hwd Hnw Rr Be D4e Fr Fd eq_refl Hdf Ec Ez Es Eo Hs')
    as (sto & st3 & Ost & Sne & Snb & Sln & Hex3 & Hemb & Hwf).
  set (fl4 := [assign_flag X86Lift.n_CF i1; assign_flag X86Lift.n_OF i2; assign_flag X86Lift.n_ZF i3; assign_flag X86Lift.n_SF i4]).
  exists (pa ++ pb ++ fl4 ++ sto), st3.
  split.
  { unfold lift_shift. assert (Q: forall (X : option (res (list operation))), match o with SShl | SShr | SSar => X | _ => None end = X) by (intros X; destruct H3 as [->|[->| ->]]; reflexivity).
    rewrite Q. f_equal. rewrite Oa, Ob. cbn [bind fst snd]. rewrite Ba, Emc. cbn [bind]. rewrite E1. cbn [bind]. rewrite Bce, E2. cbn [bind]. rewrite E3. cbn [bind].
    rewrite E4. cbn [bind]. rewrite E5. cbn [bind]. rewrite Be, E6. cbn [bind]. rewrite E7. cbn [bind].
    rewrite F1. cbn [bind]. rewrite F2. cbn [bind]. rewrite F3. cbn [bind]. rewrite F4. cbn [bind]. rewrite Ost. cbn [bind]. reflexivity. }
  split; [exact Ma|]. split; [|split; [exact Hemb|exact Hwf]].
  rewrite app_assoc. apply run_one_block_nb.
  - unfold nobranch in *. rewrite forallb_app, Nb. rewrite forallb_app, Snb. reflexivity.
  - intros E. apply app_eq_nil in E. destruct E as [_ E]. apply app_eq_nil in E. destruct E as [E _]. discriminate.
  - rewrite (app_length (pa ++ pb)), (app_length fl4). unfold fl4. cbn [length]. lia.
  - rewrite (exec_ops_app (pa ++ pb) _ st st1 Ex1).
    assert (X14: exec_ops st1 fl4 = Ok st2).
    { unfold fl4. change [assign_flag X86Lift.n_CF i1; assign_flag X86Lift.n_OF i2; assign_flag X86Lift.n_ZF i3; assign_flag X86Lift.n_SF i4]
        with ([assign_flag X86Lift.n_CF i1] ++ [assign_flag X86Lift.n_OF i2] ++ [assign_flag X86Lift.n_ZF i3] ++ [assign_flag X86Lift.n_SF i4]).
      rewrite (exec_ops_app _ _ st1 sa X1). rewrite (exec_ops_app _ _ sa sb X2). rewrite (exec_ops_app _ _ sb sc X3). exact X4. }
    rewrite (exec_ops_app fl4 _ st1 st2 X14). exact Hex3.
Qed.

Lemma lift_shift_any_3 m (o : shop) sz csz dst cnt : shop3 o -> lift_shift_any m o sz csz dst cnt = lift_shift m o sz csz dst cnt.
Proof. intros [->|[->| ->]]; reflexivity. Qed.

(* shl / shr / sar r/m, imm8 | cl *)
Theorem shift_sim m addr len (o : shop) sz dst cnt :
  shop3 o -> width_ok sz -> opnd_ok m sz dst -> isreg dst = true \/ is_mem dst = true -> opnd_ok m 8 cnt -> is_mem cnt = false ->
  sim_when (opnd_nw sz dst) m addr len (IShift o sz dst cnt).
Proof.
  intros H3 Hwd Hod Hk Hoc Hcm s st s' ip Hw He Hnw Hstep.
  unfold step in Hstep. destruct (rd_op sz dst s) as [a|] eqn:Hra; [|discriminate]. destruct (rd_op 8 cnt s) as [cv|] eqn:Hrc; [|discriminate].
  destruct (shift o sz a cv (x_fl s)) as [r f'] eqn:Hsh.
  destruct (option_map (fun s0 => set_fl s0 f') (wr_op sz dst r s)) as [s2|] eqn:Hwr; [|discriminate]. inversion Hstep; subst s' ip.
  assert (Hs': (let '(r0, f0) := shift o sz a cv (x_fl s) in option_map (fun s0 => set_fl s0 f0) (wr_op sz dst r0 s)) = Some s2) by (rewrite Hsh; exact Hwr).
  destruct (shift_gen m addr (addr + len) o sz 8 dst cnt s st a cv s2 Hw He H3 Hwd (or_introl eq_refl) (or_introl eq_refl) Hod Hk Hoc Hcm Hnw Hra Hrc Hs')
    as (ops & st' & Hl & Md & Hrun & Hemb & Hwf).
  exists (one_block addr ops). split.
  - unfold mirror_instr. assert (Rc: regimm cnt = true) by (destruct cnt; try discriminate; reflexivity). rewrite Md, Rc.
    destruct Hk as [Hk|Hk]; rewrite Hk; [|rewrite orb_true_r]; cbn [orb andb]; rewrite (lift_shift_any_3 _ _ _ _ _ _ H3), Hl; reflexivity.
  - exists st'. auto.
Qed.

(* shl / shr / sar r/m, 1 (the D0 / D1 encodings) *)
Theorem shift1_sim m addr len (o : shop) sz dst :
  shop3 o -> width_ok sz -> opnd_ok m sz dst -> isreg dst = true \/ is_mem dst = true ->
  sim_when (opnd_nw sz dst) m addr len (IShift1 o sz dst).
Proof.
  intros H3 Hwd Hod Hk s st s' ip Hw He Hnw Hstep.
  unfold step in Hstep. destruct (rd_op sz dst s) as [a|] eqn:Hra; [|discriminate].
  destruct (shift o sz a 1 (x_fl s)) as [r f'] eqn:Hsh.
  destruct (option_map (fun s0 => set_fl s0 f') (wr_op sz dst r s)) as [s2|] eqn:Hwr; [|discriminate]. inversion Hstep; subst s' ip.
  assert (Hs': (let '(r0, f0) := shift o sz a 1 (x_fl s) in option_map (fun s0 => set_fl s0 f0) (wr_op sz dst r0 s)) = Some s2) by (rewrite Hsh; exact Hwr).
  assert (H1: 0 <= 1 < 2 ^ sz) by (destruct Hwd as [->|[->|[->| ->]]]; pows; lia).
  assert (Hoc: opnd_ok m sz (OImm 1)) by (split; assumption).
  destruct (shift_gen m addr (addr + len) o sz sz dst (OImm 1) s st a 1 s2 Hw He H3 Hwd Hwd (or_intror eq_refl) Hod Hk Hoc eq_refl Hnw Hra eq_refl Hs')
    as (ops & st' & Hl & Md & Hrun & Hemb & Hwf).
  exists (one_block addr ops). split.
  - unfold mirror_instr. rewrite Md. destruct Hk as [Hk|Hk]; rewrite Hk; [|rewrite orb_true_r]; cbn [orb andb]; rewrite (lift_shift_any_3 _ _ _ _ _ _ H3), Hl; reflexivity.
  - exists st'. auto.
Qed.
