(* Isa/MipsLift.v -- Gallina MIRROR of lib/translator/mips/semantics.rs and of the delay-slot
   sequencing of lib/translator/mips/mod.rs (translate_block), builder by builder, through the checked
   constructors of IL/Expr.v (a sort error in a Rust builder is a sort error here).

   Scalars are interned by the harness in a FIXED order:
     0..31 = $zero $at $v0 $v1 $a0-$a3 $t0-$t7 $s0-$s7 $t8 $t9 $k0 $k1 $gp $sp $fp $ra,
     32 = $hi, 33 = $lo, 34 = branching_condition, 35.. = intrinsic mnemonics, 40.. = temporaries
   (temporaries by first occurrence; the mirror receives their ids). *)
From Coq Require Import ZArith List Bool NArith.
From Falcon Require Import Base.Res IL.Const IL.Expr IL.Func Isa.Mips.
Import ListNotations.
Local Open Scope Z_scope.

Definition R_HI : Z := 32.
Definition R_LO : Z := 33.
Definition R_BC : Z := 34.
Definition I_OVERFLOW : N := 35%N.
Definition I_TRAP : N := 36%N.
Definition I_BREAK : N := 37%N.
Definition I_SYSCALL : N := 38%N.
Definition I_RDHWR : N := 39%N.

(* ---------- structural equality of dumped IL ---------- *)
Fixpoint list_eqb {A} (eqb : A -> A -> bool) (a b : list A) : bool :=
  match a, b with
  | [], [] => true
  | x :: s, y :: t => eqb x y && list_eqb eqb s t
  | _, _ => false
  end.
Definition opt_eqb {A} (eqb : A -> A -> bool) (a b : option A) : bool :=
  match a, b with Some x, Some y => eqb x y | None, None => true | _, _ => false end.

Definition intrinsic_eqb (a b : intrinsic) : bool :=
  N.eqb (in_mnemonic a) (in_mnemonic b) && list_eqb expr_eqb (in_args a) (in_args b) &&
  opt_eqb (list_eqb expr_eqb) (in_written a) (in_written b) && opt_eqb (list_eqb expr_eqb) (in_read a) (in_read b).

Fixpoint operation_eqb (a b : operation) : bool :=
  match a, b with
  | OAssign d s, OAssign d' s' => scalar_eqb d d' && expr_eqb s s'
  | OStore i s, OStore i' s' => expr_eqb i i' && expr_eqb s s'
  | OLoad d i, OLoad d' i' => scalar_eqb d d' && expr_eqb i i'
  | OBranch t, OBranch t' => expr_eqb t t'
  | OIntrinsic i, OIntrinsic i' => intrinsic_eqb i i'
  | ONop None, ONop None => true
  | ONop (Some p), ONop (Some p') => operation_eqb p p'
  | _, _ => false
  end.

Definition optZ_eqb' := opt_eqb Z.eqb.
Definition instruction_eqb (a b : instruction) : bool :=
  (i_index a =? i_index b) && operation_eqb (i_op a) (i_op b) && optZ_eqb' (i_addr a) (i_addr b).
Definition block_eqb (a b : block) : bool :=
  (b_index a =? b_index b) && (b_next a =? b_next b) && list_eqb instruction_eqb (b_instrs a) (b_instrs b) &&
  match b_phis a, b_phis b with [], [] => true | _, _ => false end.
Definition edge_eqb (a b : edge) : bool :=
  (e_head a =? e_head b) && (e_tail a =? e_tail b) && opt_eqb expr_eqb (e_cond a) (e_cond b).
Definition cfg_eqb (a b : cfg) : bool :=
  list_eqb block_eqb (g_blocks a) (g_blocks b) && list_eqb edge_eqb (g_edges a) (g_edges b) &&
  (g_next_index a =? g_next_index b) && optZ_eqb' (g_entry a) (g_entry b) && optZ_eqb' (g_exit a) (g_exit b).

Definition mlifted := (list (Z * cfg) * list (Z * option expr))%type.
Definition lifted_eqb (a b : mlifted) : bool :=
  list_eqb (fun x y => (fst x =? fst y) && cfg_eqb (snd x) (snd y)) (fst a) (fst b) &&
  list_eqb (fun x y => (fst x =? fst y) && opt_eqb expr_eqb (snd x) (snd y)) (snd a) (snd b).

(* placeholder until the builders are transcribed *)
Definition mirror_block (bg : bool) (addr : Z) (ws : list Z) (temps : list (list N)) : option mlifted := None.
