(* Isa/MipsLift.v -- Gallina MIRROR of lib/translator/mips/semantics.rs and of the delay-slot
   sequencing of lib/translator/mips/mod.rs (translate_block), builder by builder, through the checked
   constructors of IL/Expr.v (a sort error in a Rust builder is a sort error here).

   Scalars are interned by the harness in a FIXED order:
     0..31 = $zero $at $v0 $v1 $a0-$a3 $t0-$t7 $s0-$s7 $t8 $t9 $k0 $k1 $gp $sp $fp $ra,
     32 = $hi, 33 = $lo, 34 = branching_condition, 35.. = intrinsic mnemonics, 40.. = temporaries
   (temporaries by first occurrence; the mirror receives their ids). *)
From Coq Require Import ZArith List Bool NArith.
From Falcon Require Import Base.Res IL.Const IL.Expr IL.Func Isa.Mips.
Import ListNotations.
Local Open Scope Z_scope.

Definition R_HI : Z := 32.
Definition R_LO : Z := 33.
Definition R_BC : Z := 34.
Definition I_OVERFLOW : N := 35%N.
Definition I_TRAP : N := 36%N.
Definition I_BREAK : N := 37%N.
Definition I_SYSCALL : N := 38%N.
Definition I_RDHWR : N := 39%N.

(* ---------- structural equality of dumped IL ---------- *)
Fixpoint list_eqb {A} (eqb : A -> A -> bool) (a b : list A) : bool :=
  match a, b with
  | [], [] => true
  | x :: s, y :: t => eqb x y && list_eqb eqb s t
  | _, _ => false
  end.
Definition opt_eqb {A} (eqb : A -> A -> bool) (a b : option A) : bool :=
  match a, b with Some x, Some y => eqb x y | None, None => true | _, _ => false end.

Definition intrinsic_eqb (a b : intrinsic) : bool :=
  N.eqb (in_mnemonic a) (in_mnemonic b) && list_eqb expr_eqb (in_args a) (in_args b) &&
  opt_eqb (list_eqb expr_eqb) (in_written a) (in_written b) && opt_eqb (list_eqb expr_eqb) (in_read a) (in_read b).

Fixpoint operation_eqb (a b : operation) : bool :=
  match a, b with
  | OAssign d s, OAssign d' s' => scalar_eqb d d' && expr_eqb s s'
  | OStore i s, OStore i' s' => expr_eqb i i' && expr_eqb s s'
  | OLoad d i, OLoad d' i' => scalar_eqb d d' && expr_eqb i i'
  | OBranch t, OBranch t' => expr_eqb t t'
  | OIntrinsic i, OIntrinsic i' => intrinsic_eqb i i'
  | ONop None, ONop None => true
  | ONop (Some p), ONop (Some p') => operation_eqb p p'
  | _, _ => false
  end.

Definition optZ_eqb' := opt_eqb Z.eqb.
Definition instruction_eqb (a b : instruction) : bool :=
  (i_index a =? i_index b) && operation_eqb (i_op a) (i_op b) && optZ_eqb' (i_addr a) (i_addr b).
Definition block_eqb (a b : block) : bool :=
  (b_index a =? b_index b) && (b_next a =? b_next b) && list_eqb instruction_eqb (b_instrs a) (b_instrs b) &&
  match b_phis a, b_phis b with [], [] => true | _, _ => false end.
Definition edge_eqb (a b : edge) : bool :=
  (e_head a =? e_head b) && (e_tail a =? e_tail b) && opt_eqb expr_eqb (e_cond a) (e_cond b).
Definition cfg_eqb (a b : cfg) : bool :=
  list_eqb block_eqb (g_blocks a) (g_blocks b) && list_eqb edge_eqb (g_edges a) (g_edges b) &&
  (g_next_index a =? g_next_index b) && optZ_eqb' (g_entry a) (g_entry b) && optZ_eqb' (g_exit a) (g_exit b).

Definition mlifted := (list (Z * cfg) * list (Z * option expr))%type.
Definition lifted_eqb (a b : mlifted) : bool :=
  list_eqb (fun x y => (fst x =? fst y) && cfg_eqb (snd x) (snd y)) (fst a) (fst b) &&
  list_eqb (fun x y => (fst x =? fst y) && opt_eqb expr_eqb (snd x) (snd y)) (snd a) (snd b).

(* ---------- registers (MIPS_REGISTERS, MipsRegister::scalar / ::expression) ---------- *)
Definition reg_scalar (r : Z) : scalar := mks (Z.to_N r) 32 None.
Definition reg_expr (r : Z) : expr := if r =? 0 then expr_const 0 32 else EScalar (reg_scalar r).
Definition sc (id : Z) (bits : Z) : scalar := mks (Z.to_N id) bits None.
Definition tmp (id : N) (bits : Z) : scalar := mks id bits None.

(* capstone presents immediates as i64; the builders cast `as u64` *)
Definition cs_simm (imm : Z) : Z := if imm <? 2 ^ 15 then imm else 2 ^ 64 - 2 ^ 16 + imm.   (* sign-extended 16-bit field, as u64 *)
Definition cs_target (a : Z) : Z := a mod 2 ^ 64.

(* ---------- graph construction (ControlFlowGraph::new_block, Block::assign/load/store/..., set_address) ---------- *)
Fixpoint number (addr : option Z) (i : Z) (ops : list operation) : list instruction :=
  match ops with [] => [] | o :: t => mkinstr i o addr :: number addr (i + 1) t end.
Definition blk (i : Z) (addr : option Z) (ops : list operation) : block :=
  mkblock i (Z.of_nat (length ops)) (number addr 0 ops) [].
Definition single (addr : option Z) (ops : list operation) : cfg :=
  mkcfg [blk 0 addr ops] [] 1 (Some 0) (Some 0).
Definition edge_c (h t : Z) (c : expr) : edge := mkedge h t (Some c).
Definition edge_u (h t : Z) : edge := mkedge h t None.
Definition intr (m : N) (declared : bool) : operation :=
  OIntrinsic (mkintr m [] (if declared then Some [] else None) (if declared then Some [] else None)).
Definition c0_1 : expr := expr_const 0 1.
Definition not1 (c : expr) : res expr := mk_bin Cmpeq c c0_1.

(* ---------- builders of semantics.rs ---------- *)
Section Builders.
Variable addr : option Z.     (* the address set_address puts on every instruction of the graph *)

(* addu, and, or, xor, subu: dst <- op(lhs, rhs) *)
Definition b_bin3 (o : binop) (rd rs rt : Z) : res cfg :=
  e <- mk_bin o (reg_expr rs) (reg_expr rt) ;; Ok (single addr [OAssign (reg_scalar rd) e]).
Definition b_move (rd rs : Z) : res cfg := Ok (single addr [OAssign (reg_scalar rd) (reg_expr rs)]).
Definition b_negu (rd rs : Z) : res cfg :=
  e <- mk_bin Sub (expr_const 0 32) (reg_expr rs) ;; Ok (single addr [OAssign (reg_scalar rd) e]).
Definition b_nor (rd rs rt : Z) : res cfg :=
  o <- mk_bin Or (reg_expr rs) (reg_expr rt) ;; e <- mk_bin Xor o (expr_const 4294967295 32) ;;
  Ok (single addr [OAssign (reg_scalar rd) e]).
Definition b_mul (rd rs rt : Z) : res cfg :=
  a <- mk_ext Sext 64 (reg_expr rs) ;; b <- mk_ext Sext 64 (reg_expr rt) ;; m <- mk_bin Mul a b ;;
  e <- mk_ext Trun 32 m ;; Ok (single addr [OAssign (reg_scalar rd) e]).

(* add, sub (rs, rt registers) and addi (rhs an immediate): four-block trapping graph *)
Definition b_trapping (o : binop) (dst : scalar) (lhs rhs : expr) : res cfg :=
  op <- mk_bin o lhs rhs ;;
  l64 <- mk_ext Sext 64 lhs ;; r64 <- mk_ext Sext 64 rhs ;; t <- mk_bin o l64 r64 ;;
  s32 <- mk_bin Shr t (expr_const 32 64) ;; b32 <- mk_ext Trun 1 s32 ;;
  s31 <- mk_bin Shr t (expr_const 31 64) ;; b31 <- mk_ext Trun 1 s31 ;;
  cond <- mk_bin Cmpneq b32 b31 ;; ncond <- not1 cond ;;
  Ok (mkcfg [blk 0 addr [ONop None]; blk 1 addr [intr I_OVERFLOW false]; blk 2 addr [OAssign dst op]; blk 3 addr []]
            [edge_c 0 1 cond; edge_c 0 2 ncond; edge_u 1 3; edge_u 2 3] 4 (Some 0) (Some 3)).
Definition b_add (rd rs rt : Z) := b_trapping Add (reg_scalar rd) (reg_expr rs) (reg_expr rt).
Definition b_sub (rd rs rt : Z) := b_trapping Sub (reg_scalar rd) (reg_expr rs) (reg_expr rt).
Definition b_addi (rt rs imm : Z) := b_trapping Add (reg_scalar rt) (reg_expr rs) (expr_const (cs_simm imm) 32).

(* addiu, andi, ori, xori: dst <- op(lhs, const) *)
Definition b_bini (o : binop) (rt rs immv : Z) : res cfg :=
  e <- mk_bin o (reg_expr rs) (expr_const immv 32) ;; Ok (single addr [OAssign (reg_scalar rt) e]).
Definition b_lui (rt imm : Z) : res cfg := Ok (single addr [OAssign (reg_scalar rt) (expr_const (imm * 2 ^ 16) 32)]).

(* slt, sltu, slti, sltiu: two-way graph assigning 1 or 0 *)
Definition b_setlt (o : binop) (dst : scalar) (lhs rhs : expr) : res cfg :=
  c <- mk_bin o lhs rhs ;; c' <- mk_bin o lhs rhs ;; nc <- not1 c' ;;
  Ok (mkcfg [blk 0 addr [ONop None]; blk 1 addr [OAssign dst (expr_const 1 32)]; blk 2 addr [OAssign dst (expr_const 0 32)]; blk 3 addr []]
            [edge_c 0 1 c; edge_c 0 2 nc; edge_u 1 3; edge_u 2 3] 4 (Some 0) (Some 3)).

(* movn / movz *)
Definition b_movc (take_if : binop) (skip_if : binop) (rd rs rt : Z) : res cfg :=
  c <- mk_bin take_if (reg_expr rt) (expr_const 0 32) ;; nc <- mk_bin skip_if (reg_expr rt) (expr_const 0 32) ;;
  Ok (mkcfg [blk 0 addr [ONop None]; blk 1 addr [OAssign (reg_scalar rd) (reg_expr rs)]; blk 2 addr []]
            [edge_c 0 1 c; edge_c 0 2 nc; edge_u 1 2] 3 (Some 0) (Some 2)).

(* sll, srl, sra (immediate amount) and sllv, srlv, srav (amount = rs & 0x1f) *)
Definition b_shi (o : binop) (rd rt sa : Z) : res cfg :=
  e <- mk_bin o (reg_expr rt) (expr_const sa 32) ;; Ok (single addr [OAssign (reg_scalar rd) e]).
Definition b_shv (o : binop) (rd rt rs : Z) : res cfg :=
  n <- mk_bin And (reg_expr rs) (expr_const 31 32) ;; e <- mk_bin o (reg_expr rt) n ;;
  Ok (single addr [OAssign (reg_scalar rd) e]).

(* clo / clz: counting loop; `count` = control_flow_graph.temp(32) *)
Definition b_clzo (ones_ : bool) (count : N) (rd rs : Z) : res cfg :=
  let cnt := EScalar (tmp count 32) in
  inc <- mk_bin Add cnt (expr_const 1 32) ;;
  d <- mk_bin Sub (expr_const 31 32) cnt ;; sh <- mk_bin Shr (reg_expr rs) d ;; bit <- mk_ext Trun 1 sh ;;
  nbit <- not1 bit ;;
  e32 <- mk_bin Cmpeq cnt (expr_const 32 32) ;; n32 <- mk_bin Cmpneq cnt (expr_const 32 32) ;;
  Ok (mkcfg [blk 0 addr [OAssign (tmp count 32) (expr_const 0 32)]; blk 1 addr [];
             blk 2 addr [OAssign (tmp count 32) inc]; blk 3 addr [OAssign (reg_scalar rd) cnt]]
            [edge_u 0 1; edge_c 1 2 (if ones_ then bit else nbit); edge_c 1 3 (if ones_ then nbit else bit);
             edge_c 2 1 n32; edge_c 2 3 e32] 4 (Some 0) (Some 3)).

(* mult, multu: 64-bit temporary, then $hi / $lo *)
Definition hi_lo_of (t : scalar) : res (list operation) :=
  s <- mk_bin Shr (EScalar t) (expr_const 32 64) ;; h <- mk_ext Trun 32 s ;; l <- mk_ext Trun 32 (EScalar t) ;;
  Ok [OAssign (sc R_HI 32) h; OAssign (sc R_LO 32) l].
Definition b_mult (x : extop) (t0 : N) (rs rt : Z) : res cfg :=
  a <- mk_ext x 64 (reg_expr rs) ;; b <- mk_ext x 64 (reg_expr rt) ;; m <- mk_bin Mul a b ;;
  hl <- hi_lo_of (tmp t0 64) ;;
  Ok (single addr (OAssign (tmp t0 64) m :: hl)).
(* madd, maddu, msub, msubu *)
Definition b_macc (x : extop) (sub_ : bool) (t0 t1 : N) (rs rt : Z) : res cfg :=
  a <- mk_ext x 64 (reg_expr rs) ;; b <- mk_ext x 64 (reg_expr rt) ;; m <- mk_bin Mul a b ;;
  zh <- mk_ext Zext 64 (EScalar (sc R_HI 32)) ;; sh <- mk_bin Shl zh (expr_const 32 64) ;;
  zl <- mk_ext Zext 64 (EScalar (sc R_LO 32)) ;; acc <- mk_bin Or (EScalar (tmp t1 64)) zl ;;
  r <- (if sub_ then mk_bin Sub (EScalar (tmp t1 64)) (EScalar (tmp t0 64))
        else mk_bin Add (EScalar (tmp t0 64)) (EScalar (tmp t1 64))) ;;
  hl <- hi_lo_of (tmp t0 64) ;;
  Ok (single addr ([OAssign (tmp t0 64) m; OAssign (tmp t1 64) sh; OAssign (tmp t1 64) acc; OAssign (tmp t0 64) r] ++ hl)).
(* div, divu: guarded like movn -- a zero divisor skips the division ($hi/$lo unchanged: UNPREDICTABLE in the ISA) *)
Definition b_div (q m : binop) (rs rt : Z) : res cfg :=
  eq <- mk_bin q (reg_expr rs) (reg_expr rt) ;; em <- mk_bin m (reg_expr rs) (reg_expr rt) ;;
  c <- mk_bin Cmpneq (reg_expr rt) (expr_const 0 32) ;; nc <- mk_bin Cmpeq (reg_expr rt) (expr_const 0 32) ;;
  Ok (mkcfg [blk 0 addr [ONop None]; blk 1 addr [OAssign (sc R_LO 32) eq; OAssign (sc R_HI 32) em]; blk 2 addr []]
            [edge_c 0 1 c; edge_c 0 2 nc; edge_u 1 2] 3 (Some 0) (Some 2)).
Definition b_mfhilo (rd src : Z) : res cfg := Ok (single addr [OAssign (reg_scalar rd) (EScalar (sc src 32))]).
Definition b_mthilo (dst rs : Z) : res cfg := Ok (single addr [OAssign (sc dst 32) (reg_expr rs)]).

(* loads and stores *)
Definition ea (base off : Z) : res expr := mk_bin Add (reg_expr base) (expr_const (cs_simm off) 32).
Definition b_load_ext (x : extop) (bits : Z) (t : N) (rt base off : Z) : res cfg :=   (* lb lbu lh lhu *)
  a <- ea base off ;; e <- mk_ext x 32 (EScalar (tmp t bits)) ;;
  Ok (single addr [OLoad (tmp t bits) a; OAssign (reg_scalar rt) e]).
Definition b_lw (rt base off : Z) : res cfg :=                                         (* lw, ll *)
  a <- ea base off ;; Ok (single addr [OLoad (reg_scalar rt) a]).
Definition b_store_trun (bits : Z) (rt base off : Z) : res cfg :=                      (* sb sh *)
  a <- ea base off ;; v <- mk_ext Trun bits (reg_expr rt) ;; Ok (single addr [OStore a v]).
Definition b_sw (rt base off : Z) : res cfg := a <- ea base off ;; Ok (single addr [OStore a (reg_expr rt)]).
Definition b_sc (rt base off : Z) : res cfg :=
  a <- ea base off ;; Ok (single addr [OStore a (reg_expr rt); OAssign (reg_scalar rt) (expr_const 1 32)]).

(* unaligned_lane: vAddr[1:0] xor BigEndianCPU^2 *)
Definition lane_e (bg : bool) (a : expr) : res expr :=
  byte <- mk_bin And a (expr_const 3 32) ;;
  if bg then mk_bin Sub (expr_const 3 32) byte else Ok byte.
Definition aligned_e (a : expr) : res expr := mk_bin And (expr_const 4294967292 32) a.
Definition b_lwl (bg : bool) (t : N) (rt base off : Z) : res cfg :=
  a <- ea base off ;; ln <- lane_e bg a ;; al <- aligned_e a ;;
  d <- mk_bin Sub (expr_const 3 32) ln ;; shift <- mk_bin Shl d (expr_const 3 32) ;;
  one <- mk_bin Shl (expr_const 1 32) shift ;; keep <- mk_bin Sub one (expr_const 1 32) ;;
  hi_ <- mk_bin Shl (EScalar (tmp t 32)) shift ;; lo_ <- mk_bin And (reg_expr rt) keep ;;
  e <- mk_bin Or hi_ lo_ ;;
  Ok (single addr [OLoad (tmp t 32) al; OAssign (reg_scalar rt) e]).
Definition b_lwr (bg : bool) (t : N) (rt base off : Z) : res cfg :=
  a <- ea base off ;; ln <- lane_e bg a ;; al <- aligned_e a ;;
  shift <- mk_bin Shl ln (expr_const 3 32) ;;
  d <- mk_bin Sub (expr_const 32 32) shift ;; keep <- mk_bin Shl (expr_const 4294967295 32) d ;;
  lo_ <- mk_bin Shr (EScalar (tmp t 32)) shift ;; hi_ <- mk_bin And (reg_expr rt) keep ;;
  e <- mk_bin Or lo_ hi_ ;;
  Ok (single addr [OLoad (tmp t 32) al; OAssign (reg_scalar rt) e]).
Definition b_swl (bg : bool) (t : N) (rt base off : Z) : res cfg :=
  a <- ea base off ;; ln <- lane_e bg a ;; al <- aligned_e a ;;
  l1 <- mk_bin Add ln (expr_const 1 32) ;; kb <- mk_bin Shl l1 (expr_const 3 32) ;;
  keep <- mk_bin Shl (expr_const 4294967295 32) kb ;;
  d <- mk_bin Sub (expr_const 3 32) ln ;; shift <- mk_bin Shl d (expr_const 3 32) ;;
  old <- mk_bin And (EScalar (tmp t 32)) keep ;; new <- mk_bin Shr (reg_expr rt) shift ;;
  e <- mk_bin Or old new ;;
  Ok (single addr [OLoad (tmp t 32) al; OStore al e]).
Definition b_swr (bg : bool) (t : N) (rt base off : Z) : res cfg :=
  a <- ea base off ;; ln <- lane_e bg a ;; al <- aligned_e a ;;
  shift <- mk_bin Shl ln (expr_const 3 32) ;;
  one <- mk_bin Shl (expr_const 1 32) shift ;; keep <- mk_bin Sub one (expr_const 1 32) ;;
  new <- mk_bin Shl (reg_expr rt) shift ;; old <- mk_bin And (EScalar (tmp t 32)) keep ;;
  e <- mk_bin Or new old ;;
  Ok (single addr [OLoad (tmp t 32) al; OStore al e]).

(* teq, break, syscall, nop *)
Definition b_teq (rs rt : Z) : res cfg :=
  e <- mk_bin Cmpeq (reg_expr rs) (reg_expr rt) ;; n <- mk_bin Cmpneq (reg_expr rs) (reg_expr rt) ;;
  Ok (mkcfg [blk 0 addr [ONop None]; blk 1 addr []; blk 2 addr [intr I_TRAP true]]
            [edge_c 0 1 n; edge_c 0 2 e; edge_u 2 1] 3 (Some 0) (Some 1)).
Definition b_intr (m : N) : res cfg := Ok (single addr [intr m true]).
Definition b_nop : res cfg := Ok (single addr [ONop None]).
Definition b_empty : res cfg := Ok (single addr []).          (* semantics::b, semantics::j *)

(* branch graphs placed after the delay slot *)
Definition b_branch_const (target : Z) : res cfg := Ok (single addr [OBranch (expr_const target 32)]).   (* bal, jal *)
Definition b_branch_reg (rs : Z) : res cfg := Ok (single addr [OBranch (reg_expr rs)]).                  (* jr, jalr *)
Definition b_cond_link (target : Z) : res cfg :=                                                         (* bgezal, bltzal *)
  let bc := EScalar (sc R_BC 1) in
  nc <- not1 bc ;;
  Ok (mkcfg [blk 0 addr [ONop None]; blk 1 addr [OBranch (expr_const target 32)]; blk 2 addr []]
            [edge_c 0 1 bc; edge_c 0 2 nc; edge_u 1 2] 3 (Some 0) (Some 2)).
End Builders.

(* ---------- dispatch of mod.rs for one non-control instruction, with capstone's aliases ----------
   None = no claim (form not mirrored, or capstone presents an instruction the lifter does not handle) *)
Definition nthN (l : list N) (i : nat) : N := nth i l 0%N.

Definition lift_plain (bg : bool) (i : minstr) (a : Z) (ts : list N) : option (res cfg) :=
  let ad := Some a in
  match i with
  | MAlu3 AAdd rd rs rt => Some (b_add ad rd rs rt)
  | MAlu3 AAddu rd rs rt => Some (if rt =? 0 then b_move ad rd rs else b_bin3 ad Add rd rs rt)     (* addu d, s, $zero = move *)
  | MAlu3 ASub rd rs rt => if rs =? 0 then None (* neg: not handled *) else Some (b_sub ad rd rs rt)
  | MAlu3 ASubu rd rs rt => Some (if rs =? 0 then b_negu ad rd rt else b_bin3 ad Sub rd rs rt)     (* subu d, $zero, t = negu *)
  | MAlu3 AAnd rd rs rt => Some (b_bin3 ad And rd rs rt)
  | MAlu3 AOr rd rs rt => Some (if rt =? 0 then b_move ad rd rs else b_bin3 ad Or rd rs rt)        (* or d, s, $zero = move *)
  | MAlu3 AXor rd rs rt => Some (b_bin3 ad Xor rd rs rt)
  | MAlu3 ANor rd rs rt => if rt =? 0 then None (* not: not handled *) else Some (b_nor ad rd rs rt)
  | MAlu3 ASlt rd rs rt => Some (b_setlt ad Cmplts (reg_scalar rd) (reg_expr rs) (reg_expr rt))
  | MAlu3 ASltu rd rs rt => Some (b_setlt ad Cmpltu (reg_scalar rd) (reg_expr rs) (reg_expr rt))
  | MAlu3 AMovn rd rs rt => Some (b_movc ad Cmpneq Cmpeq rd rs rt)
  | MAlu3 AMovz rd rs rt => Some (b_movc ad Cmpeq Cmpneq rd rs rt)
  | MAlu3 AMul rd rs rt => Some (b_mul ad rd rs rt)
  | MShi o rd rt sa =>
      match o with
      | SSll => if (rd =? 0) && (rt =? 0) then (if sa =? 0 then Some (b_nop ad) else None (* ssnop, ehb, pause *))
                else Some (b_shi ad Shl rd rt sa)
      | SSrl => Some (b_shi ad Shr rd rt sa)
      | SSra => Some (b_shi ad AShr rd rt sa)
      end
  | MShv o rd rt rs => Some (b_shv ad (match o with SSll => Shl | SSrl => Shr | SSra => AShr end) rd rt rs)
  | MAluI IAddi rt rs imm => Some (b_addi ad rt rs imm)
  | MAluI IAddiu rt rs imm => Some (b_bini ad Add rt rs (cs_simm imm))
  | MAluI ISlti rt rs imm => Some (b_setlt ad Cmplts (reg_scalar rt) (reg_expr rs) (expr_const (cs_simm imm) 32))
  | MAluI ISltiu rt rs imm => Some (b_setlt ad Cmpltu (reg_scalar rt) (reg_expr rs) (expr_const (cs_simm imm) 32))
  | MAluI IAndi rt rs imm => Some (b_bini ad And rt rs imm)
  | MAluI IOri rt rs imm => Some (b_bini ad Or rt rs imm)
  | MAluI IXori rt rs imm => Some (b_bini ad Xor rt rs imm)
  | MLui rt imm => Some (b_lui ad rt imm)
  | MClz rd rs => Some (b_clzo ad false (nthN ts 0) rd rs)
  | MClo rd rs => Some (b_clzo ad true (nthN ts 0) rd rs)
  | MMulDiv MMult rs rt => Some (b_mult ad Sext (nthN ts 0) rs rt)
  | MMulDiv MMultu rs rt => Some (b_mult ad Zext (nthN ts 0) rs rt)
  | MMulDiv MDiv rs rt => Some (b_div ad Divs Mods rs rt)
  | MMulDiv MDivu rs rt => Some (b_div ad Divu Modu rs rt)
  | MMulDiv MMadd rs rt => Some (b_macc ad Sext false (nthN ts 0) (nthN ts 1) rs rt)
  | MMulDiv MMaddu rs rt => Some (b_macc ad Zext false (nthN ts 0) (nthN ts 1) rs rt)
  | MMulDiv MMsub rs rt => Some (b_macc ad Sext true (nthN ts 0) (nthN ts 1) rs rt)
  | MMulDiv MMsubu rs rt => Some (b_macc ad Zext true (nthN ts 0) (nthN ts 1) rs rt)
  | MMfhi rd => Some (b_mfhilo ad rd R_HI)
  | MMflo rd => Some (b_mfhilo ad rd R_LO)
  | MMthi rs => Some (b_mthilo ad R_HI rs)
  | MMtlo rs => Some (b_mthilo ad R_LO rs)
  | MLoad LLb rt b o => Some (b_load_ext ad Sext 8 (nthN ts 0) rt b o)
  | MLoad LLbu rt b o => Some (b_load_ext ad Zext 8 (nthN ts 0) rt b o)
  | MLoad LLh rt b o => Some (b_load_ext ad Sext 16 (nthN ts 0) rt b o)
  | MLoad LLhu rt b o => Some (b_load_ext ad Zext 16 (nthN ts 0) rt b o)
  | MLoad LLw rt b o | MLoad LLl rt b o => Some (b_lw ad rt b o)
  | MLoad LLwl rt b o => Some (b_lwl ad bg (nthN ts 0) rt b o)
  | MLoad LLwr rt b o => Some (b_lwr ad bg (nthN ts 0) rt b o)
  | MStore SSb rt b o => Some (b_store_trun ad 8 rt b o)
  | MStore SSh rt b o => Some (b_store_trun ad 16 rt b o)
  | MStore SSw rt b o => Some (b_sw ad rt b o)
  | MStore SSc rt b o => Some (b_sc ad rt b o)
  | MStore SSwl rt b o => Some (b_swl ad bg (nthN ts 0) rt b o)
  | MStore SSwr rt b o => Some (b_swr ad bg (nthN ts 0) rt b o)
  | MTeq rs rt _ => Some (b_teq ad rs rt)
  | MBreak _ => Some (b_intr ad I_BREAK)
  | MSyscall _ => Some (b_intr ad I_SYSCALL)
  | MSync _ | MPref _ _ _ => Some (b_nop ad)
  | _ => None
  end.

(* ---------- translate_block: a branch, its delay slot, the successors ---------- *)
Definition bc_scalar : scalar := sc R_BC 1.
Definition bc_expr : expr := EScalar bc_scalar.

(* capstone's absolute targets *)
Definition cs_btarget (a off : Z) : Z := cs_target (a + 4 + sx16 off * 4).
Definition cs_jtarget (a idx : Z) : Z := (a + 4) / 2 ^ 28 * 2 ^ 28 + idx * 4.

(* the graph pushed at the branch's own address, before the delay slot:
   nop_graph | conditional_graph(condition) | semantics::link_graph *)
Definition pre_graph (b : minstr) (a : Z) : option (res cfg) :=
  let ad := Some a in
  let link (r : Z) := OAssign (reg_scalar r) (expr_const (a + 8) 32) in
  let zero := expr_const 0 32 in
  let cond (c : res expr) := Some (e <- c ;; Ok (single ad [OAssign bc_scalar e])) in
  match b with
  | MJ _ | MJr _ => Some (b_nop ad)
  | MJal _ => Some (Ok (single ad [link 31]))
  | MJalr rd rs => if rd =? 0 then Some (b_nop ad) (* capstone: jr rs *) else Some (Ok (single ad [link rd]))
  | MBr2 BEq rs rt _ =>
      if (rs =? 0) && (rt =? 0) then Some (b_nop ad)                              (* b *)
      else if rt =? 0 then cond (mk_bin Cmpeq (reg_expr rs) zero)                 (* beqz *)
      else cond (mk_bin Cmpeq (reg_expr rs) (reg_expr rt))
  | MBr2 BNe rs rt _ =>
      if rt =? 0 then cond (mk_bin Cmpneq (reg_expr rs) zero)                     (* bnez *)
      else cond (mk_bin Cmpneq (reg_expr rs) (reg_expr rt))
  | MBrz BGez rs _ => cond (c <- mk_bin Cmplts (reg_expr rs) zero ;; not1 c)
  | MBrz BGtz rs _ => cond (mk_bin Cmplts zero (reg_expr rs))
  | MBrz BLez rs _ => cond (l <- mk_bin Cmplts (reg_expr rs) zero ;; e <- mk_bin Cmpeq (reg_expr rs) zero ;; mk_bin Or l e)
  | MBrz BLtz rs _ => cond (mk_bin Cmplts (reg_expr rs) zero)
  | MBrzal BGezal rs _ =>
      if rs =? 0 then Some (Ok (single ad [link 31]))                             (* bal *)
      else Some (c <- mk_bin Cmplts (reg_expr rs) zero ;; e <- not1 c ;; Ok (single ad [OAssign bc_scalar e; link 31]))
  | MBrzal BLtzal rs _ =>
      Some (c <- mk_bin Cmplts (reg_expr rs) zero ;; Ok (single ad [OAssign bc_scalar c; link 31]))
  | _ => None
  end.

(* the branch's own graph, re-addressed to a + 1 and placed after the delay slot *)
Definition post_graph (b : minstr) (a : Z) : option (res cfg) :=
  let ad := Some (a + 1) in
  match b with
  | MJ _ | MBr2 _ _ _ _ | MBrz _ _ _ => Some (b_empty ad)
  | MJal idx => Some (b_branch_const ad (cs_jtarget a idx))
  | MJr rs | MJalr _ rs => Some (b_branch_reg ad rs)
  | MBrzal BGezal rs off => if rs =? 0 then Some (b_branch_const ad (cs_btarget a off)) else Some (b_cond_link ad (cs_btarget a off))
  | MBrzal BLtzal rs off => Some (b_cond_link ad (cs_btarget a off))
  | _ => None
  end.

Definition succs_of (b : minstr) (a : Z) : list (Z * option expr) :=
  let two (t : Z) := match not1 bc_expr with
                     | Ok n => [(t, Some bc_expr); (a + 8, Some n)]
                     | _ => [] end in
  match b with
  | MJ idx => [(cs_jtarget a idx, None)]
  | MJr _ => []
  | MJalr rd _ => if rd =? 0 then [] else [(a + 8, None)]
  | MJal _ | MBrzal _ _ _ => [(a + 8, None)]
  | MBr2 BEq rs rt off => if (rs =? 0) && (rt =? 0) then [(cs_btarget a off, None)] else two (cs_btarget a off)
  | MBr2 BNe _ _ off | MBrz _ _ off => two (cs_btarget a off)
  | _ => []
  end.

Definition okc (o : option (res cfg)) : option cfg := match o with Some (Ok g) => Some g | _ => None end.

(* BlockTranslationResult::new -> merge_successors (lib/translator/block_translation_result.rs): successors
   naming the same address are merged into the first one, in first-occurrence order; two guards are or-ed
   (on a sort error the first guard is kept), an unguarded successor makes the merged one unguarded *)
Fixpoint merge_into (acc : list (Z * option expr)) (a : Z) (c : option expr) : list (Z * option expr) :=
  match acc with
  | [] => [(a, c)]
  | (a', c') :: t =>
      if a' =? a then
        (a', match c', c with
             | Some l, Some r => match mk_bin Or l r with Ok e => Some e | _ => Some l end
             | _, _ => None
             end) :: t
      else (a', c') :: merge_into t a c
  end.
Definition merge_succs (l : list (Z * option expr)) : list (Z * option expr) :=
  fold_left (fun acc x => merge_into acc (fst x) (snd x)) l [].

Definition mirror_block (bg : bool) (addr : Z) (ws : list Z) (temps : list (list N)) : option mlifted :=
  match ws with
  | [w] =>
      match decode w with
      | Some i => if is_control i then None else
          match okc (lift_plain bg i addr (nth 0 temps [])) with
          | Some g => Some ([(addr, g)], merge_succs [(addr + 4, None)])
          | None => None
          end
      | None => None
      end
  | [w1; w2] =>
      match decode w1, decode w2 with
      | Some b, Some sl =>
          if negb (is_control b) || is_control sl then None else
          match okc (pre_graph b addr), okc (lift_plain bg sl (addr + 4) (nth 1 temps [])), okc (post_graph b addr) with
          | Some p, Some s, Some q => Some ([(addr, p); (addr + 2, s); (addr + 1, q)], merge_succs (succs_of b addr))   (* keys: branch A, slot A + 2, branch graph A + 1; the slot's instructions carry address A + 4 *)
          | _, _, _ => None
          end
      | _, _ => None
      end
  | _ => None
  end.

(* ---------- which plain forms have a correctness theorem (Isa/MipsProofs.v), and the field ranges the
   theorems assume; both are evaluated by the tie for every enumerated encoding ---------- *)
Definition proved_plain (i : minstr) : bool :=
  match i with
  | MRdhwr _ _ => false                 (* hardware registers: UNPREDICTABLE in the specification, lifted to an intrinsic *)
  | i => negb (is_control i)
  end.

Definition regb (r : Z) : bool := (0 <=? r) && (r <=? 31).
Definition immb (x : Z) : bool := (0 <=? x) && (x <? 2 ^ 16).
Definition fields_okb (i : minstr) : bool :=
  match i with
  | MAlu3 _ rd rs rt => regb rd && regb rs && regb rt
  | MShi _ rd rt sa => regb rd && regb rt && (0 <=? sa) && (sa <? 32)
  | MShv _ rd rt rs => regb rd && regb rt && regb rs
  | MAluI _ rt rs imm => regb rt && regb rs && immb imm
  | MLui rt imm => regb rt && immb imm
  | MClz rd rs | MClo rd rs => regb rd && regb rs
  | MMulDiv _ rs rt => regb rs && regb rt
  | MMfhi r | MMflo r | MMthi r | MMtlo r => regb r
  | MLoad _ rt base off | MStore _ rt base off => regb rt && regb base && immb off
  | MTeq rs rt _ => regb rs && regb rt
  | _ => true
  end.
(* the ids of the temporaries of one graph are pairwise distinct *)
Fixpoint nodupN (l : list N) : bool :=
  match l with [] => true | x :: t => negb (existsb (N.eqb x) t) && nodupN t end.
Definition off_okb (a off : Z) : bool :=
  (0 <=? off) && (off <? 2 ^ 16) && (0 <=? a + 4 + sx16 off * 4) && (a + 4 + sx16 off * 4 <? 2 ^ 32).
Definition branch_okb (a : Z) (b : minstr) : bool :=
  match b with
  | MJ idx | MJal idx => (0 <=? idx) && (idx <? 2 ^ 26)
  | MJr rs => regb rs
  | MJalr rd rs => regb rd && regb rs
  | MBr2 _ rs rt off => regb rs && regb rt && off_okb a off
  | MBrz _ rs off | MBrzal _ rs off => regb rs && off_okb a off
  | _ => true
  end.
(* side conditions of the block theorems for the words of one case *)
Definition case_okb (a : Z) (ws : list Z) : bool :=
  (0 <=? a) && (a + 8 <? 2 ^ 32) &&
  match ws with
  | [w] => match decode w with Some i => fields_okb i | None => true end
  | [w1; w2] => match decode w1, decode w2 with
                | Some b, Some sl => branch_okb a b && fields_okb sl
                | _, _ => true
                end
  | _ => true
  end.
