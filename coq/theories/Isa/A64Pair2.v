(* Isa/A64Pair2.v -- per-form correctness of LDP / LDNP (32- and 64-bit), all four addressing modes.  [U] *)
From Coq Require Import ZArith List Bool NArith Lia ZifyBool.
From Falcon Require Import Base.Res IL.Const IL.ConstSpec IL.Expr IL.ExprSpec IL.Func IL.Loc Exec.Sem
     IL.ConstProofs IL.ExprProofs Isa.A64 Isa.A64Lift Isa.A64Run Isa.A64Proofs Isa.A64Sim Isa.A64Arith
     Isa.A64Mem Isa.A64Load Isa.A64Store Isa.A64Pair.
Import ListNotations.
Local Open Scope Z_scope.
Ltac Zify.zify_post_hook ::= Z.div_mod_to_equations.

(* a Load into a temporary: the other scalars and the memory are untouched *)
Lemma exec_load_frame s st k bits idx a n v :
  emb s st -> (36 <= k)%N -> (1 <= n)%nat -> bits = 8 * Z.of_nat n ->
  den (st_env st) idx = Ok (mkc 64 a) -> 0 <= a < 2 ^ 64 ->
  (forall x, In x (addr_range a n) -> bm_get (st_mem st) x <> None) ->
  mem_rd s a n = Some v ->
  exists st', exec_op st (OLoad (mks k bits None) idx) = Ok (st', EvLoad (k, None) a (mkc bits v)) /\
              emb s st' /\ env_get (st_env st') (k, None) = Some (mkc bits v) /\
              (forall k', k' <> (k, None) -> env_get (st_env st') k' = env_get (st_env st) k') /\
              st_mem st' = st_mem st.
Proof.
  intros He Hk Hn Hb Hd Ha Hm Hrd. subst bits. cbn [exec_op]. rewrite Hd. cbn [bind]. unfold addr_of. cbn [cval].
  assert (H : a <? ADDR_LIMIT = true) by (apply Z.ltb_lt; unfold ADDR_LIMIT; lia). rewrite H. cbn [bind sbits].
  rewrite (mem_load_spec s st a n v He Hn ltac:(lia) Hm Hrd). cbn [bind]. unfold skey_of. cbn [sname sssa].
  eexists. split; [reflexivity|]. split; [apply emb_set_free; assumption|]. split; [cbn [st_env]; apply env_get_set_same|].
  split; [|reflexivity]. intros k' Hk'. cbn [st_env]. apply env_get_set_other. congruence.
Qed.

(* reg_set of a narrow / full value, with the frame: scalars numbered above 36 are untouched *)
Lemma reg_set_frame s st r value w v :
  emb s st -> areg_ok r -> 1 <= w <= 64 -> e_bits value = w ->
  den (st_env st) value = Ok (mkc w v) ->
  exists op st' k c, reg_set r value = Ok op /\ exec_op st op = Ok (st', EvAssign k c) /\
                     emb (areg_write s r v) st' /\
                     (forall j, (37 <= j)%N -> env_get (st_env st') (j, None) = env_get (st_env st) (j, None)).
Proof.
  intros He Hr Hw Hb Hd.
  destruct (reg_set_sim_w s st r value w v He Hr Hw Hb Hd) as (op & st' & k & c & S1 & S2 & S3).
  exists op, st', k, c. split; [exact S1|]. split; [exact S2|]. split; [exact S3|].
  destruct (reg_set_is_assign r value op S1) as (e & ->).
  destruct (exec_assign_frame st _ _ _ _ S2) as [_ Hf].
  destruct (full_scalar_key r) as (nk & Hk & Hle). specialize (Hle Hr).
  intros j Hj. apply Hf. rewrite Hk. intros E. inversion E. lia.
Qed.

(* fn ldp on [Reg rt; Reg rt2; mem], 32- or 64-bit *)
Lemma b_ldp_sim s st k rt' rt2' base off n d1 d2 :
  wf s -> emb s st -> areg_ok rt' -> areg_ok rt2' -> areg_ok base -> reg_bits base = 64 ->
  reg_bits rt' = 8 * Z.of_nat n -> reg_bits rt2' = 8 * Z.of_nat n -> (n = 4 \/ n = 8)%nat ->
  let B := areg_val s base in
  let A := match k with KPost => B | _ => wrap64 (B + off) end in
  A + 2 * Z.of_nat n <= 2 ^ 64 ->
  mapped st (addr_range A n) -> mapped st (addr_range (A + Z.of_nat n) n) ->
  mem_rd s A n = Some d1 -> mem_rd s (A + Z.of_nat n) n = Some d2 ->
  let s2 := areg_write (areg_write s rt' d1) rt2' d2 in
  (k = KOffset \/ areg_val s2 base = B) ->
  exists ops st', b_ldp [OReg rt'; OReg rt2'; mem_opnd k base off] = Ok (ops, []) /\ (length ops <= 5)%nat /\
    run_ops ops st = OFall st' /\
    emb (match k with KOffset => s2 | _ => areg_write s2 base (wrap64 (B + off)) end) st'.
Proof.
  intros Hw He Hrt Hrt2 Hbase Hb64 Hb1 Hb2 Hn B A Hov M1 M2 R1 R2 s2 Hwb.
  destruct (mem_opnd_address k base off Hbase Hb64) as (be & G & Bb & MA).
  set (a_e := match k with KPost => be | _ => EBin Add be (expr_const off 64) end) in *.
  assert (Hae : e_bits a_e = 64) by (unfold a_e; destruct k; cbn [e_bits is_cmp]; assumption).
  assert (DA : forall st', emb s st' -> den (st_env st') a_e = Ok (mkc 64 A)).
  { intros st' He'. destruct (base_den s st' base be He' Hbase Hb64 G) as [Db' Da'].
    unfold a_e, A, B. destruct k; [apply Da'|apply Da'|exact Db']. }
  assert (HA : 0 <= A < 2 ^ 64).
  { unfold A. destruct k; try apply wrap64_range. unfold B. pose proof (areg_val_range s base Hw). rewrite Hb64 in H. exact H. }
  unfold b_ldp, nth_op. cbn [nth_error res_of_option bind operand_storing_width].
  rewrite MA. cbn [bind fst snd]. rewrite mk_bin_ok by (rewrite Hae; reflexivity). cbn [unwrap bind operand_store].
  rewrite Hb1.
  (* the two loads *)
  destruct (exec_load_frame s st 70%N (8 * Z.of_nat n) a_e A n d1 He ltac:(lia) ltac:(lia) eq_refl (DA st He) HA M1 R1)
    as (st1 & E1 & He1 & G1 & F1 & Mm1).
  assert (DA2 : den (st_env st1) (EBin Add a_e (expr_const (8 * Z.of_nat n / 8) 64)) = Ok (mkc 64 (A + Z.of_nat n))).
  { rewrite (den_bin _ Add _ _ 64 A (U 64 (8 * Z.of_nat n / 8)) (DA st1 He1)) by (apply den_const; lia).
    cbn [sp_bin]. unfold s_add, U. replace (8 * Z.of_nat n / 8) with (Z.of_nat n) by (symmetry; rewrite Z.mul_comm; apply Z.div_mul; lia).
    f_equal. f_equal. rewrite (Z.mod_small (Z.of_nat n)) by lia. apply Z.mod_small. lia. }
  assert (M2' : forall x, In x (addr_range (A + Z.of_nat n) n) -> bm_get (st_mem st1) x <> None) by (rewrite Mm1; exact M2).
  destruct (exec_load_frame s st1 71%N (8 * Z.of_nat n) _ (A + Z.of_nat n) n d2 He1 ltac:(lia) ltac:(lia) eq_refl DA2 ltac:(lia) M2' R2)
    as (st2 & E2 & He2 & G2 & F2 & Mm2).
  assert (G1' : env_get (st_env st2) (70%N, None) = Some (mkc (8 * Z.of_nat n) d1)) by (rewrite F2 by congruence; exact G1).
  (* destination 1 *)
  assert (Dt0 : den (st_env st2) (EScalar (s_temp0 (8 * Z.of_nat n))) = Ok (mkc (8 * Z.of_nat n) d1))
    by (apply den_scalar_get; [exact G1'|reflexivity]).
  destruct (reg_set_frame s st2 rt' (EScalar (s_temp0 (8 * Z.of_nat n))) (8 * Z.of_nat n) d1 He2 Hrt ltac:(lia) eq_refl Dt0)
    as (op1 & st3 & k1 & c1 & S1 & X1 & He3 & F3).
  (* destination 2 *)
  assert (Dt1 : den (st_env st3) (EScalar (s_temp1 (8 * Z.of_nat n))) = Ok (mkc (8 * Z.of_nat n) d2))
    by (apply den_scalar_get; [rewrite F3 by lia; exact G2|reflexivity]).
  destruct (reg_set_frame _ st3 rt2' (EScalar (s_temp1 (8 * Z.of_nat n))) (8 * Z.of_nat n) d2 He3 Hrt2 ltac:(lia) eq_refl Dt1)
    as (op2 & st4 & k2 & c2 & S2 & X2 & He4 & F4).
  fold s2 in He4.
  rewrite S1. cbn [bind]. rewrite S2. cbn [bind].
  (* write-back *)
  destruct Hwb as [-> | Hv2].
  - cbn [sideeffect bind app]. eexists; exists st4. split; [reflexivity|]. split; [cbn; lia|]. split; [|exact He4].
    rewrite (run_ops_step _ _ _ _ _ E1 I), (run_ops_step _ _ _ _ _ E2 I), (run_ops_assign _ _ _ _ _ _ X1), (run_ops_assign _ _ _ _ _ _ X2).
    reflexivity.
  - destruct (sideeffect_sim s k base off be s2 st4 Hbase Hb64 G Bb He4 Hv2) as (wops & st5 & SE & SL & SR & SEmb).
    rewrite SE. cbn [bind]. eexists; exists st5. split; [reflexivity|]. split; [cbn [length app]; lia|]. split; [|exact SEmb].
    cbn [app]. rewrite (run_ops_step _ _ _ _ _ E1 I), (run_ops_step _ _ _ _ _ E2 I), (run_ops_assign _ _ _ _ _ _ X1), (run_ops_assign _ _ _ _ _ _ X2).
    exact SR.
Qed.

Lemma In_addr_range : forall n a x, In x (addr_range a n) <-> a <= x < a + Z.of_nat n.
Proof.
  induction n as [|n IH]; intros a x; cbn [addr_range In]; [lia|].
  rewrite IH, Nat2Z.inj_succ. lia.
Qed.

Lemma base_after_write s (sf : bool) t v n : 0 <= n < 32 -> (n = 31 \/ t <> n) ->
  areg_val (setX s t v) (xreg_sp true n) = areg_val s (xreg_sp true n).
Proof.
  intros Hn Hc. unfold xreg_sp, setX. destruct (Z.eqb_spec n 31) as [->|N31]; destruct (Z.eqb_spec t 31); cbn [areg_val asp xr]; try reflexivity.
  unfold upd. destruct (Z.eqb_spec n t); [lia|reflexivity].
Qed.

(* ------------------------------------------------------------------ C6.2.164 LDP / C6.2.163 LDNP, 32- and 64-bit, all four modes *)
Theorem ldp_sim addr opc mode imm7 rt2 rn rt :
  (opc = 0 \/ opc = 2) -> 0 <= rt < 32 -> 0 <= rt2 < 32 -> 0 <= rn < 32 ->
  sim addr (ILdStPair opc mode true imm7 rt2 rn rt).
Proof.
  intros Hopc Ht Ht2 Hn s st ops succs s' Hw Hpc Ha He Hm Hl Hs.
  set (sf := negb (opc =? 0)).
  set (n := Z.to_nat (2 ^ (2 + opc / 2))).
  assert (Hn48 : (n = 4 \/ n = 8)%nat) by (unfold n; destruct Hopc as [-> | ->]; [left|right]; reflexivity).
  assert (Hdb : 2 ^ (2 + opc / 2) = Z.of_nat n) by (unfold n; destruct Hopc as [-> | ->]; reflexivity).
  assert (Hds : dsize sf = 8 * Z.of_nat n) by (unfold sf, n; destruct Hopc as [-> | ->]; reflexivity).
  assert (Hsg : (opc =? 1) = false) by (destruct Hopc as [-> | ->]; reflexivity).
  destruct (xzr_xsp_range sf rt Ht) as [Hrt _]. destruct (xzr_xsp_range sf rt2 Ht2) as [Hrt2 _].
  destruct (xzr_xsp_range true rn Hn) as [_ Hbase].
  set (offset := sext_imm 7 imm7 * 2 ^ (2 + opc / 2)) in *.
  set (k := kind_of mode).
  set (B := SPorX s rn).
  set (A := match k with KPost => B | _ => wrap64 (B + offset) end).
  assert (HAeq : (if match mode with PPost => true | _ => false end then B else wrap64 (B + offset)) = A)
    by (unfold A, k; destruct mode; reflexivity).
  (* footprint *)
  cbn [footprint] in Hm. fold offset B in Hm.
  assert (HAeq' : match mode with PPost => B | _ => wrap64 (B + offset) end = A) by (unfold A, k; destruct mode; reflexivity).
  rewrite HAeq', Hdb in Hm.
  assert (M1 : mapped st (addr_range A n)).
  { intros x Hx. apply Hm. apply In_addr_range. apply In_addr_range in Hx. lia. }
  assert (M2 : mapped st (addr_range (A + Z.of_nat n) n)).
  { intros x Hx. apply Hm. apply In_addr_range. apply In_addr_range in Hx. lia. }
  (* specification *)
  cbn [a64step] in Hs. fold offset in Hs. fold B in Hs. rewrite Hsg in Hs.
  destruct ((match mode with PPost | PPre => true | _ => false end) && ((rt =? rn) || (rt2 =? rn)) && negb (rn =? 31)) eqn:Eunp; [discriminate|].
  cbn [andb] in Hs. destruct (rt =? rt2) eqn:Ett; [discriminate|].
  rewrite HAeq in Hs. rewrite Hdb in Hs.
  destruct (Z.ltb_spec (2 ^ 64) (A + Z.of_nat n + Z.of_nat n)) as [Hov|Hok]; [discriminate|].
  rewrite Nat2Z.id in Hs.
  destruct (mem_rd s A n) as [d1|] eqn:R1; [|discriminate].
  destruct (mem_rd s (A + Z.of_nat n) n) as [d2|] eqn:R2; [|discriminate].
  inversion Hs; subst s'; clear Hs.
  (* the lifter *)
  unfold lift in Hl. cbn [operands_of] in Hl. fold sf offset in Hl. rewrite Hsg in Hl. cbn [dispatch terminating] in Hl.
  set (base := xreg_sp true rn) in *.
  assert (Hmem : (match mode with PNoAlloc | POffset => OMemOffset base (u64 offset) | PPre => OMemPreIdx base (u64 offset) | PPost => OMemPostIdxImm base (u64 offset) end)
                 = mem_opnd k base (u64 offset)) by (unfold k; destruct mode; reflexivity).
  rewrite Hmem in Hl.
  assert (HB : areg_val s base = B) by (apply areg_val_sp64; assumption).
  assert (Hw64 : wrap64 (B + u64 offset) = wrap64 (B + offset)) by apply wrap_u64.
  assert (HAil : match k with KPost => areg_val s base | _ => wrap64 (areg_val s base + u64 offset) end = A)
    by (rewrite HB, Hw64; reflexivity).
  assert (Hc : k = KOffset \/ rn = 31 \/ (rt <> rn /\ rt2 <> rn)).
  { unfold k. destruct mode; cbn [kind_of]; try (left; reflexivity); right; cbn [andb] in Eunp;
      (destruct (Z.eqb_spec rn 31) as [E31|N31]; [left; exact E31|right]); cbn [negb] in Eunp; rewrite andb_true_r in Eunp;
      apply orb_false_iff in Eunp; destruct Eunp as [E1 E2]; apply Z.eqb_neq in E1; apply Z.eqb_neq in E2; split; assumption. }
  assert (Hwb : k = KOffset \/ areg_val (areg_write (areg_write s (xreg_zr sf rt) d1) (xreg_zr sf rt2) d2) base = areg_val s base).
  { destruct Hc as [Hk | Hc]; [left; exact Hk|right]. rewrite !areg_write_zr. unfold base.
    rewrite (base_after_write _ sf rt2 d2 rn Hn) by (destruct Hc as [Hc|[_ Hc]]; [left|right]; assumption).
    apply (base_after_write _ sf rt d1 rn Hn). destruct Hc as [Hc|[Hc _]]; [left|right]; assumption. }
  rewrite <- HAil in M1, M2, R1, R2, Hok.
  destruct (b_ldp_sim s st k _ _ base (u64 offset) n d1 d2 Hw He Hrt Hrt2 Hbase (reg_bits_sp true rn)
              ltac:(rewrite reg_bits_zr; exact Hds) ltac:(rewrite reg_bits_zr; exact Hds) Hn48 ltac:(lia) M1 M2 R1 R2 Hwb)
    as (ops' & st' & B1 & Blen & B2 & B3).
  rewrite B1 in Hl. cbn [bind fst snd] in Hl. inversion Hl; subst ops succs; clear Hl.
  rewrite !areg_write_zr in B3. rewrite HB, Hw64 in B3.
  assert (Hst : (if match mode with PPost | PPre => true | _ => false end then setSPorX (setX (setX s rt d1) rt2 d2) rn (wrap64 (B + offset)) else setX (setX s rt d1) rt2 d2) =
                match k with KOffset => setX (setX s rt d1) rt2 d2 | _ => areg_write (setX (setX s rt d1) rt2 d2) base (wrap64 (B + offset)) end).
  { unfold k, base. destruct mode; cbn [kind_of]; try reflexivity; symmetry; apply areg_write_sp. }
  rewrite Hst.
  apply (finish_fall_ops' addr s st _ ops' st'); try assumption; [lia|].
  unfold base. destruct k; [|rewrite areg_write_sp, apc_setSPorX|rewrite areg_write_sp, apc_setSPorX]; rewrite !apc_setX; reflexivity.
Qed.
