(* Isa/X86Run.v -- running a lifted x86 instruction graph in the reference IL semantics (Exec/Sem.v)
   and relating IL states to machine states (Isa/X86.v).

   * scalar names are interned by the harness in a FIXED order (see [harness/src/bin/c01.rs: seed_names]):
       0..15  rax rcx rdx rbx rsp rbp rsi rdi r8..r15     16..31 xmm0..xmm15
       32..37 CF PF ZF SF OF DF                           38..45 eax ecx edx ebx esp ebp esi edi
       46..51 es_base cs_base ss_base ds_base fs_base gs_base  (flat memory model: es/cs/ss/ds bases are 0 in the
              corresponding IL state; fs/gs are not given a value and forms using them are not generated)
     everything else (temporaries, IF) gets later numbers and is ignored by the embedding.
   * [observation]: what property C01 compares: GPRs, XMM, CF/ZF/SF/OF/DF, memory, next instruction address. *)
From Coq Require Import ZArith List Bool NArith.
From Falcon Require Import Base.Res IL.Const IL.ConstSpec IL.Expr IL.ExprSpec IL.Func IL.Loc Exec.Sem Isa.X86.
Import ListNotations.
Local Open Scope Z_scope.

(* ---------------- names ---------------- *)
Definition n_gpr64 (r : Z) : N := Z.to_N r.
Definition n_xmm (r : Z) : N := Z.to_N (16 + r).
Definition n_CF : N := 32%N. Definition n_PF : N := 33%N. Definition n_ZF : N := 34%N.
Definition n_SF : N := 35%N. Definition n_OF : N := 36%N. Definition n_DF : N := 37%N.
Definition n_gpr32 (r : Z) : N := Z.to_N (38 + r).
Definition gpr_name (m : mode) (r : Z) : N := match m with M64 => n_gpr64 r | M32 => n_gpr32 r end.
Definition ngpr (m : mode) : Z := match m with M64 => 16 | M32 => 8 end.

(* ---------------- the memory image of a test ---------------- *)
Definition LOW_BASE : Z := 268435456.            (* 0x10000000 *)
Definition HIGH_BASE : Z := 130103989239808.     (* 0x765432100000 *)
Definition REG_SIZE : Z := 65536.
Definition in_regions (a : Z) : bool :=
  ((LOW_BASE <=? a) && (a <? LOW_BASE + REG_SIZE)) || ((HIGH_BASE <=? a) && (a <? HIGH_BASE + REG_SIZE)).
(* must agree with pat() of native/x86run.c *)
Definition pat (seed a : Z) : Z := (((a mod 65536) * 40503 + (seed mod 65536) * 12345) / 256) mod 256.
Definition image (seed : Z) (over : list (Z * Z)) (a : Z) : option Z :=
  match alookup over a with
  | Some v => Some v
  | None => if in_regions a then Some (pat seed a) else None
  end.

Fixpoint range_bytes (img : Z -> option Z) (a : Z) (n : nat) : list (Z * Z) :=
  match n with
  | O => []
  | Datatypes.S k => match img a with
                     | Some v => (a, v) :: range_bytes img (a + 1) k
                     | None => range_bytes img (a + 1) k
                     end
  end.
Definition ranges_bytes (img : Z -> option Z) (rs : list (Z * Z)) : list (Z * Z) :=
  flat_map (fun r => range_bytes img (fst r) (Z.to_nat (snd r))) rs.

(* ---------------- observations ---------------- *)
Record observation := mkobs {
  o_next : option Z;
  o_gpr : list Z;
  o_xmm : list Z;
  o_cf : Z; o_zf : Z; o_sf : Z; o_of : Z; o_df : Z;
  o_memw : list (Z * Z) }.       (* bytes written (newest first) or bytes that differ from the image *)

(* which components are compared: registers listed in [k_ugpr] and flags whose bit is 0 are skipped *)
Record cmpmask := mkmask { k_ugpr : list Z; k_cf : bool; k_zf : bool; k_sf : bool; k_of : bool; k_xmm : bool }.

Fixpoint list_eqb_masked (i : Z) (skip : list Z) (a b : list Z) : bool :=
  match a, b with
  | [], [] => true
  | x :: ta, y :: tb => (existsb (Z.eqb i) skip || (x =? y)) && list_eqb_masked (i + 1) skip ta tb
  | _, _ => false
  end.
Definition optZ_eqb (a b : option Z) : bool :=
  match a, b with Some x, Some y => x =? y | None, None => true | _, _ => false end.

Definition final_byte (img : Z -> option Z) (w : list (Z * Z)) (a : Z) : option Z :=
  match alookup w a with Some v => Some v | None => img a end.
Definition mem_agree (img : Z -> option Z) (wa wb : list (Z * Z)) : bool :=
  forallb (fun kv => optZ_eqb (final_byte img wa (fst kv)) (final_byte img wb (fst kv))) (wa ++ wb).

Definition obs_agree (img : Z -> option Z) (k : cmpmask) (a b : observation) : bool :=
  optZ_eqb (o_next a) (o_next b) &&
  list_eqb_masked 0 (k_ugpr k) (o_gpr a) (o_gpr b) &&
  (negb (k_xmm k) || list_eqb_masked 0 [] (o_xmm a) (o_xmm b)) &&
  (negb (k_cf k) || (o_cf a =? o_cf b)) && (negb (k_zf k) || (o_zf a =? o_zf b)) &&
  (negb (k_sf k) || (o_sf a =? o_sf b)) && (negb (k_of k) || (o_of a =? o_of b)) &&
  (o_df a =? o_df b) && mem_agree img (o_memw a) (o_memw b).

(* ---------------- machine state <-> IL state ---------------- *)
Definition rfl_bit (rfl n : Z) : Z := (rfl / 2 ^ n) mod 2.
Definition flags_of_rflags (rfl : Z) : flags :=
  let b n := FB (rfl_bit rfl n =? 1) in mkfl (b 0) (b 2) (b 6) (b 7) (b 11) (b 10).

Fixpoint env_of_list (name : Z -> N) (w : Z) (i : Z) (l : list Z) : senv :=
  match l with [] => [] | v :: t => ((name i, None), mkc w v) :: env_of_list name w (i + 1) t end.

Definition il_init (m : mode) (gpr xmm : list Z) (rfl : Z) (mem : list (Z * Z)) : sstate :=
  let fl n bit := ((n, None), mkc 1 (rfl_bit rfl bit)) in
  mkst (env_of_list (gpr_name m) (wordsz m) 0 gpr
        ++ env_of_list n_xmm 128 0 xmm
        ++ [fl n_CF 0; fl n_PF 2; fl n_ZF 6; fl n_SF 7; fl n_OF 11; fl n_DF 10]
        ++ map (fun n => ((n, None), mkc (wordsz m) 0)) [46%N; 47%N; 48%N; 49%N])
       (mkbmem false mem).

(* reading the embedding back; None = a register/flag is missing or has the wrong width *)
Definition env_val (en : senv) (n : N) (w : Z) : option Z :=
  match env_get en (n, None) with
  | Some c => if cbits c =? w then Some (cval c) else None
  | None => None
  end.
Fixpoint env_vals (en : senv) (name : Z -> N) (w : Z) (i : Z) (n : nat) : option (list Z) :=
  match n with
  | O => Some []
  | Datatypes.S k => match env_val en (name i) w, env_vals en name w (i + 1) k with
                     | Some v, Some t => Some (v :: t)
                     | _, _ => None
                     end
  end.

Definition il_obs (m : mode) (nx : nat) (st : sstate) (next : option Z) (ninit : nat) : option observation :=
  let en := st_env st in
  match env_vals en (gpr_name m) (wordsz m) 0 (Z.to_nat (ngpr m)),
        env_vals en n_xmm 128 0 nx,
        env_val en n_CF 1, env_val en n_ZF 1, env_val en n_SF 1, env_val en n_OF 1, env_val en n_DF 1 with
  | Some g, Some x, Some cf, Some zf, Some sf, Some of, Some df =>
      let bytes := bm_bytes (st_mem st) in
      Some (mkobs next g x cf zf sf of df (firstn (Nat.sub (length bytes) ninit) bytes))
  | _, _, _, _, _, _, _ => None
  end.

Definition flagZ (f : flag) : Z := match f with FB true => 1 | _ => 0 end.
Definition flag_def (f : flag) : bool := match f with FB _ => true | FU => false end.
Definition x_obs (s : xstate) (ip : Z) : observation :=
  let f := x_fl s in
  mkobs (Some ip) (x_gpr s) (x_xmm s) (flagZ (f_cf f)) (flagZ (f_zf f)) (flagZ (f_sf f)) (flagZ (f_of f))
        (flagZ (f_df f)) (xm_writes (x_mem s)).
Definition x_mask (s : xstate) : cmpmask :=
  let f := x_fl s in
  mkmask (x_ugpr s) (flag_def (f_cf f)) (flag_def (f_zf f)) (flag_def (f_sf f)) (flag_def (f_of f)) true.

(* ---------------- the runner ---------------- *)
Inductive ilres := ILFin (st : sstate) (next : option Z) | ILStuck (e : err) | ILFuel.

Fixpoint il_run (fuel : nat) (f : func) (l : floc) (st : sstate) : ilres :=
  match fuel with
  | O => ILFuel
  | Datatypes.S k =>
      match sem_step f l st with
      | Next l' st' _ => il_run k f l' st'
      | Goto a st' => ILFin st' (Some a)
      | Exit st' _ => ILFin st' None
      | Stuck e => ILStuck e
      end
  end.

(* successor list of translate_block: the enabled successors after the instruction graph has run *)
Fixpoint enabled_succs (en : senv) (ss : list (Z * option expr)) : res (list Z) :=
  match ss with
  | [] => Ok []
  | (a, None) :: t => r <- enabled_succs en t ;; Ok (a :: r)
  | (a, Some c) :: t =>
      v <- den en c ;;
      if negb (cbits v =? 1) then Err ESort else
      r <- enabled_succs en t ;; Ok (if cval v =? 1 then a :: r else r)
  end.

Inductive runres :=
| RunOk (st : sstate) (next : option Z)
| RunStuck (e : err)         (* the IL faults: undefined scalar, unmapped memory, sort error, ... *)
| RunFuel
| RunAmbiguous.              (* two enabled successors with different addresses *)

Definition all_same (l : list Z) : bool := match l with [] => true | a :: t => forallb (Z.eqb a) t end.

Definition run_instr (fuel : nat) (g : cfg) (succ : list (Z * option expr)) (addr : Z) (st : sstate) : runres :=
  let f := mkfunc addr g None in
  match from_function f with
  | Some (Ok l) =>
      match il_run fuel f l st with
      | ILFin st' (Some a) => RunOk st' (Some a)
      | ILFin st' None =>
          match enabled_succs (st_env st') succ with
          | Ok [] => RunOk st' None
          | Ok (a :: t) => if all_same (a :: t) then RunOk st' (Some a) else RunAmbiguous
          | Err e => RunStuck e
          | Panic => RunStuck EOther
          end
      | ILStuck e => RunStuck e
      | ILFuel => RunFuel
      end
  | _ => RunStuck ENoEntry
  end.
