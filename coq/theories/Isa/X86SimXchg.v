(* Isa/X86SimXchg.v -- round 6, step 1: xchg and xadd (two destinations written in sequence), register and
   memory first operands, incl. one register for both operands. *)
From Coq Require Import ZArith List Bool NArith Lia ZifyBool.
From Falcon Require Import Base.Res IL.Const IL.ConstSpec IL.ConstProofs IL.Expr IL.ExprSpec IL.Func IL.Loc Exec.Sem.
From Falcon Require Import Isa.X86 Isa.X86Run Isa.X86Lift Isa.X86Mirror Isa.X86Proofs Isa.X86Sim Isa.C01Check Isa.X86Tie Isa.X86SimMem Isa.X86SimCarry Isa.X86SimMore.
Import ListNotations.
Local Open Scope Z_scope.
Ltac Zify.zify_post_hook ::= Z.div_mod_to_equations.

(* ---------- what single operations leave alone ---------- *)
Lemma exec_assign_frame st sc e st' : exec_ops st [OAssign sc e] = Ok st' ->
  (forall k, k <> skey_of sc -> env_get (st_env st') k = env_get (st_env st) k) /\ st_mem st' = st_mem st.
Proof.
  cbn [exec_ops exec_op]. destruct (den (st_env st) e) as [v| |]; cbn [bind fst]; intros H; inversion H; subst st'.
  cbn [st_env st_mem]. split; [|reflexivity]. intros k K. apply env_get_set_other. exact K.
Qed.
Lemma exec_store_env st a v st' : exec_ops st [OStore a v] = Ok st' -> st_env st' = st_env st.
Proof.
  cbn [exec_ops exec_op]. destruct (den (st_env st) v) as [v0| |]; cbn [bind]; try discriminate.
  destruct (den (st_env st) a) as [i| |]; cbn [bind]; try discriminate.
  destruct (addr_of i) as [a0| |]; cbn [bind]; try discriminate.
  destruct (mem_store (st_mem st) a0 v0) as [m0| |]; cbn [bind fst]; try discriminate.
  intros H; inversion H; reflexivity.
Qed.

(* the register write, with the frame of the IL state it produces *)
Lemma assign_reg_exec2 m s st dst sz sd rhs b :
  wf m s -> emb m s st -> 0 <= oreg dst < ngpr m -> isreg dst = true ->
  operand_shape m sz dst = Some (gpr_name m (oreg dst), sd) ->
  e_bits rhs = sz -> 0 <= b < 2 ^ sz -> den (st_env st) rhs = Ok (mkc sz b) ->
  exists o1 st' g', ops_store m sz dst rhs = Ok [o1] /\ is_assign o1 = true /\ exec_ops st [o1] = Ok st' /\
    wr_op sz dst b s = Some (set_gpr s g') /\ emb m (set_gpr s g') st' /\ wf m (set_gpr s g') /\
    (forall k, k <> (gpr_name m (oreg dst), None) -> env_get (st_env st') k = env_get (st_env st) k) /\
    st_mem st' = st_mem st.
Proof.
  intros Hw He Hr Hi Hs Br Hb Dr.
  destruct (assign_reg_exec m s st dst sz sd rhs b Hw He Hr Hi Hs Br Hb Dr) as (o1 & Hops & Ia & st' & g' & Hex & Hwr & Hemb & Hwf).
  exists o1, st', g'. repeat (split; [assumption|]).
  destruct (operand_shape_xreg _ _ _ _ _ Hs) as (Xd & Vd & Bd).
  assert (Hb': 0 <= b < 2 ^ shape_bits (wordsz m) sd) by (rewrite Bd; exact Hb).
  assert (Br': e_bits rhs = shape_bits (wordsz m) sd) by (rewrite Bd; exact Br).
  assert (Dr': den (st_env st) rhs = Ok (mkc (shape_bits (wordsz m) sd) b)) by (rewrite Bd; exact Dr).
  destruct (reg_set_correct (st_env st) _ (wordsz m) sd _ rhs b Vd (wf_rng _ _ Hw _ Hr) Hb' (emb_gpr _ _ _ He _ Hr) Br' Dr')
    as (e & Se & De).
  unfold ops_store in Hops. rewrite Xd, Se in Hops. inversion Hops; subst o1.
  apply (exec_assign_frame st _ _ _ Hex).
Qed.

Lemma emb_set_T0 m s st sz v : emb m s st -> emb m s (mkst (env_set (st_env st) kT0 (mkc sz v)) (st_mem st)).
Proof.
  intros He. apply emb_set_free; [exact He| | | | | |]; try (unfold kT0, kCF, kZF, kSF, kOF, kDF; discriminate).
  intros n Hn E. unfold kT0 in E. inversion E; subst n. cbn in Hn. discriminate.
Qed.
Lemma emb_set_T1 m s st sz v : emb m s st -> emb m s (mkst (env_set (st_env st) kT1 (mkc sz v)) (st_mem st)).
Proof.
  intros He. apply emb_set_free; [exact He| | | | | |]; try (unfold kT1, kCF, kZF, kSF, kOF, kDF; discriminate).
  intros n Hn E. unfold kT1 in E. inversion E; subst n. cbn in Hn. discriminate.
Qed.

Lemma wr_op_at_reg sz o v sa s : isreg o = true -> wr_op_at sz o v sa s = wr_op sz o v s.
Proof. destruct o; try discriminate; reflexivity. Qed.

(* a store through a memory operand, without any flag change, exposing the environment *)
Lemma mem_store_exec m s st dst sz r ae ve :
  wf m s -> emb m s st -> mem_operand_ok m dst -> width_ok sz -> no_wrap sz dst s ->
  addr_expr m dst = Some (Ok ae) -> 0 <= r < 2 ^ sz -> den (st_env st) ve = Ok (mkc sz r) ->
  forall s', wr_op sz dst r s = Some s' ->
  exists st3, exec_ops st [OStore ae ve] = Ok st3 /\ emb m s' st3 /\ wf m s' /\ st_env st3 = st_env st /\
              x_gpr s' = x_gpr s /\ x_fl s' = x_fl s.
Proof.
  intros Hw He Hd Hwd Hnw Ea Hr Dv s' Hs'.
  assert (Q: option_map (fun s1 => set_fl s1 (x_fl s)) (wr_op sz dst r s) = Some s' /\ x_gpr s' = x_gpr s /\ x_fl s' = x_fl s).
  { destruct dst; try (cbn in Hd; contradiction). unfold wr_op, wr_op_at in *.
    destruct (mem_wr (x_mem s) asz _ r (nbytes sz)); [|discriminate]. inversion Hs'; subst s'. cbn [option_map]. repeat split. }
  destruct Q as (Q & Qg & Qf).
  destruct (finish_mem m s st st dst sz r ae ve (x_fl s) Hw He Hd Hwd Hnw Ea Hr Dv (fun _ _ => eq_refl) eq_refl eq_refl eq_refl
              (emb_cf _ _ _ He) (emb_zf _ _ _ He) (emb_sf _ _ _ He) (emb_of _ _ _ He) s' Q) as (st3 & Hex & Hemb & Hwf).
  exists st3. repeat (split; [assumption|]). split; [apply (exec_store_env _ _ _ _ Hex)|]. split; assumption.
Qed.

Lemma kT0_ne_reg m r : 0 <= r < ngpr m -> kT0 <> (gpr_name m r, @None N).
Proof. intros Hr E. destruct (reg_key_facts m r Hr) as (K0 & _). apply K0. symmetry. exact E. Qed.
Lemma kT1_ne_reg m r : 0 <= r < ngpr m -> kT1 <> (gpr_name m r, @None N).
Proof. intros Hr E. apply (kT1_not_reg _ (gpr_name_ok m _ Hr)). rewrite E. reflexivity. Qed.

(* ---------- xchg r, r ---------- *)
Theorem xchg_sim m addr len sz a b :
  reg_operand_ok m sz a -> reg_operand_ok m sz b -> width_ok sz -> sim m addr len (IXchg sz a b).
Proof.
  intros Hoa Hob Hwd s st s' ip Hw He Hstep.
  destruct (reg_operand_shape m sz a Hoa) as (sda & Hsa & Hra & Hia).
  destruct (reg_operand_shape m sz b Hob) as (sdb & Hsb & Hrb & Hib).
  destruct (reg_expr_facts m sz a s st sda Hw He Hoa Hsa) as (lhs & Oa & Bl & Cl & Ml & Hva & Dl).
  destruct (reg_expr_facts m sz b s st sdb Hw He Hob Hsb) as (rhs & Ob & Br & Cr & Mr & Hvb & Dr).
  pose proof (rd_reg_operand m sz a s sda Hia Hsa) as Rda. pose proof (rd_reg_operand m sz b s sdb Hib Hsb) as Rdb.
  set (va := arch_read sda (wordsz m) (rget (x_gpr s) (oreg a))) in *.
  set (vb := arch_read sdb (wordsz m) (rget (x_gpr s) (oreg b))) in *.
  unfold step in Hstep. rewrite Rda, Rdb in Hstep. cbn [obind] in Hstep.
  destruct (clean_parts _ Cr) as (R0 & _).
  (* t0 := a *)
  set (st2 := mkst (env_set (st_env st) kT0 (mkc sz va)) (st_mem st)).
  pose proof (emb_set_T0 m s st sz va He) as He2. fold st2 in He2.
  assert (Dr2: den (st_env st2) rhs = Ok (mkc sz vb)) by (unfold st2; cbn [st_env]; rewrite den_env_set; assumption).
  (* a := b *)
  destruct (assign_reg_exec2 m s st2 a sz sda rhs vb Hw He2 Hra Hia Hsa Br Hvb Dr2)
    as (o1 & st3 & g1 & Hops1 & Ia1 & Hex1 & Hwr1 & Hemb1 & Hwf1 & Hfr1 & _).
  rewrite Hwr1 in Hstep. cbn [obind] in Hstep. rewrite (wr_op_at_reg sz b va s _ Hib) in Hstep.
  assert (D3: den (st_env st3) (T0e sz) = Ok (mkc sz va)).
  { apply T0e_den. rewrite Hfr1 by (apply kT0_ne_reg; exact Hra). unfold st2. cbn [st_env]. apply env_get_set_same. }
  (* b := t0 *)
  destruct (assign_reg_exec m (set_gpr s g1) st3 b sz sdb (T0e sz) va Hwf1 Hemb1 Hrb Hib Hsb eq_refl Hva D3)
    as (o2 & Hops2 & Ia2 & st4 & g2 & Hex2 & Hwr2 & Hemb2 & Hwf2).
  rewrite Hwr2 in Hstep. inversion Hstep; subst s' ip.
  exists (one_block addr [OAssign (temp_k 0 sz) lhs; o1; o2]). split.
  - unfold mirror_instr. rewrite Hib, Hia. cbn [andb orb]. unfold lift_xchg, opl, ost.
    destruct a; try discriminate Hia; destruct b; try discriminate Hib; rewrite Oa, Ob; cbn [bind fst snd]; fold (T0e sz);
      rewrite Hops1; cbn [bind]; rewrite Hops2; cbn [bind app]; reflexivity.
  - exists st4. split; [|auto]. apply run_one_block; [cbn [forallb is_assign]; rewrite Ia1, Ia2; reflexivity|discriminate|cbn [length]; lia|].
    change [OAssign (temp_k 0 sz) lhs; o1; o2] with ([OAssign (temp_k 0 sz) lhs] ++ [o1] ++ [o2]).
    rewrite (exec_ops_app [OAssign (temp_k 0 sz) lhs] _ st st2) by (cbn [exec_ops]; rewrite (exec_assign st _ _ _ Dl); reflexivity).
    rewrite (exec_ops_app [o1] _ st2 st3 Hex1). exact Hex2.
Qed.

(* ---------- xchg [m], r ---------- *)
Theorem xchg_mem_sim m addr len sz a b :
  mem_operand_ok m a -> reg_operand_ok m sz b -> width_ok sz -> sim_when (no_wrap sz a) m addr len (IXchg sz a b).
Proof.
  intros Hoa Hob Hwd s st s' ip Hw He Hnw Hstep.
  destruct (mem_operand_facts m a s Hw Hoa) as (Hea & A64 & P64 & Im). destruct (is_mem_not_reg _ Im) as (Ir & Irg).
  destruct (reg_operand_shape m sz b Hob) as (sdb & Hsb & Hrb & Hib).
  unfold step in Hstep. destruct (rd_op sz a s) as [va|] eqn:Hrd; cbn [obind] in Hstep; [|discriminate].
  destruct (load_step m sz a s st va Hw He Hoa Hwd Hnw Hrd) as (ae & ev & Ea & Ex1 & _ & Hva).
  set (st1 := mkst (env_set (st_env st) kTM (mkc sz va)) (st_mem st)) in *.
  pose proof (emb_set_temp m s st sz va He) as He1. fold st1 in He1.
  assert (Dl: den (st_env st1) (EScalar (temp_main sz)) = Ok (mkc sz va)) by (apply temp_main_den; unfold st1; cbn [st_env]; apply env_get_set_same).
  destruct (reg_expr_facts m sz b s st1 sdb Hw He1 Hob Hsb) as (rhs & Ob & Br & Cr & Mr & Hvb & Dr).
  pose proof (rd_reg_operand m sz b s sdb Hib Hsb) as Rdb.
  set (vb := arch_read sdb (wordsz m) (rget (x_gpr s) (oreg b))) in *.
  rewrite Rdb in Hstep. cbn [obind] in Hstep.
  destruct (clean_parts _ Cr) as (R0 & _).
  set (st2 := mkst (env_set (st_env st1) kT0 (mkc sz va)) (st_mem st1)).
  pose proof (emb_set_T0 m s st1 sz va He1) as He2. fold st2 in He2.
  assert (Dr2: den (st_env st2) rhs = Ok (mkc sz vb)) by (unfold st2; cbn [st_env]; rewrite den_env_set; assumption).
  destruct (wr_op sz a vb s) as [s1|] eqn:Hw1; cbn [obind] in Hstep; [|discriminate].
  destruct (mem_store_exec m s st2 a sz vb ae rhs Hw He2 Hoa Hwd Hnw Ea Hvb Dr2 s1 Hw1) as (st3 & Hex3 & Hemb1 & Hwf1 & Henv & Hg1 & _).
  rewrite (wr_op_at_reg sz b va s _ Hib) in Hstep.
  assert (D3: den (st_env st3) (T0e sz) = Ok (mkc sz va)).
  { apply T0e_den. rewrite Henv. unfold st2. cbn [st_env]. apply env_get_set_same. }
  destruct (assign_reg_exec m s1 st3 b sz sdb (T0e sz) va Hwf1 Hemb1 Hrb Hib Hsb eq_refl Hva D3)
    as (o2 & Hops2 & Ia2 & st4 & g2 & Hex2 & Hwr2 & Hemb2 & Hwf2).
  rewrite Hwr2 in Hstep. inversion Hstep; subst s' ip.
  exists (one_block addr [OLoad (temp_main sz) ae; OAssign (temp_k 0 sz) (EScalar (temp_main sz)); OStore ae rhs; o2]). split.
  - unfold mirror_instr. rewrite Hib, Ir, Im. unfold opnd_mirrored, lift_xchg, opl, ost.
    destruct a; try discriminate Im; destruct b; try discriminate Hib; rewrite Ea, Ob; cbn [andb orb bind fst snd]; fold (T0e sz);
      rewrite Hops2; cbn [bind app]; reflexivity.
  - exists st4. split; [|auto]. apply run_one_block_nb; [|discriminate|cbn [length]; lia|].
    + cbn [nobranch forallb is_branch negb andb]. destruct o2; try discriminate Ia2; reflexivity.
    + change [OLoad (temp_main sz) ae; OAssign (temp_k 0 sz) (EScalar (temp_main sz)); OStore ae rhs; o2]
        with ([OLoad (temp_main sz) ae] ++ [OAssign (temp_k 0 sz) (EScalar (temp_main sz))] ++ [OStore ae rhs] ++ [o2]).
      rewrite (exec_ops_app [OLoad (temp_main sz) ae] _ st st1) by (cbn [exec_ops]; rewrite Ex1; reflexivity).
      rewrite (exec_ops_app [OAssign (temp_k 0 sz) (EScalar (temp_main sz))] _ st1 st2) by (cbn [exec_ops]; rewrite (exec_assign st1 _ _ _ Dl); reflexivity).
      rewrite (exec_ops_app [OStore ae rhs] _ st2 st3 Hex3). exact Hex2.
Qed.

(* ---------- xadd ---------- *)
Lemma xadd_regs_commute sz src dst a r s f' s2 : isreg src = true -> isreg dst = true ->
  obind (wr_op sz src a (set_fl s f')) (fun s1 => wr_op sz dst r s1) = Some s2 ->
  option_map (fun s' => set_fl s' f') (obind (wr_op sz src a s) (fun s1 => wr_op_at sz dst r s s1)) = Some s2.
Proof.
  destruct src; try discriminate; destruct dst; try discriminate; intros _ _ H; unfold wr_op, wr_op_at in *;
    cbn [obind option_map] in *; inversion H; reflexivity.
Qed.
Lemma xadd_mem_split sz src dst a r s f' s' : isreg src = true -> is_mem dst = true ->
  option_map (fun s0 => set_fl s0 f') (obind (wr_op sz src a s) (fun s1 => wr_op_at sz dst r s s1)) = Some s' ->
  exists s2, option_map (fun s0 => set_fl s0 f') (wr_op sz dst r s) = Some s2 /\ wr_op sz src a s2 = Some s'.
Proof.
  destruct src; try discriminate; destruct dst; try discriminate; intros _ _; unfold wr_op, wr_op_at;
    cbn [obind option_map set_gpr x_mem x_gpr];
    (destruct (mem_wr (x_mem s) asz (ea (x_gpr s) (OMem base index disp asz)) r (nbytes sz)) as [xm|]; cbn [option_map]; [|discriminate]);
    intros H; inversion H; eexists; (split; [reflexivity|]); reflexivity.
Qed.

Definition xadd_core_ops (sz : Z) (lhs e : expr) (zf sf of cf : operation) : list operation :=
  [OAssign (temp_k 1 sz) lhs; OAssign (temp_k 0 sz) e; zf; sf; of; cf].

(* t1 := lhs; t0 := lhs + rhs; ZF, SF, OF, CF *)
Lemma xadd_core st sz a b lhs rhs :
  width_ok sz -> e_bits lhs = sz -> e_bits rhs = sz -> 0 <= a < 2 ^ sz -> 0 <= b < 2 ^ sz ->
  den (st_env st) lhs = Ok (mkc sz a) -> den (st_env st) rhs = Ok (mkc sz b) ->
  clean lhs = true -> clean rhs = true -> mentions kT1 lhs = false -> mentions kT1 rhs = false ->
  let r := U sz (a + b) in
  exists e zf sf of c st',
    mk_bin Add lhs rhs = Ok e /\ set_zf (T0e sz) = Ok zf /\ set_sf (T0e sz) = Ok sf /\ set_of (T0e sz) lhs rhs false = Ok of /\
    mk_bin Cmpltu (T0e sz) lhs = Ok c /\
    forallb is_assign (xadd_core_ops sz lhs e zf sf of (assign_flag X86Lift.n_CF c)) = true /\
    exec_ops st (xadd_core_ops sz lhs e zf sf of (assign_flag X86Lift.n_CF c)) = Ok st' /\
    (forall k, k <> kT0 -> k <> kT1 -> k <> kZF -> k <> kSF -> k <> kOF -> k <> kCF -> env_get (st_env st') k = env_get (st_env st) k) /\
    st_mem st' = st_mem st /\ 0 <= r < 2 ^ sz /\
    env_get (st_env st') kT0 = Some (mkc sz r) /\ env_get (st_env st') kT1 = Some (mkc sz a) /\
    env_get (st_env st') kZF = Some (mkc 1 (X86.b2z (r =? 0))) /\
    env_get (st_env st') kSF = Some (mkc 1 (X86.b2z (X86.msb sz r))) /\
    env_get (st_env st') kOF = Some (mkc 1 (X86.b2z (X86.sovf sz (X86.Sg sz a + X86.Sg sz b)))) /\
    env_get (st_env st') kCF = Some (mkc 1 (X86.b2z (2 ^ sz <=? a + b))).
Proof.
  intros Hwd Bl Br Ha Hb Dl Dr Cl Cr Ml Mr r.
  assert (Hr: 0 <= r < 2 ^ sz) by (unfold r, U; apply Z.mod_pos_bound; destruct Hwd as [->|[->|[->| ->]]]; reflexivity).
  set (stA := mkst (env_set (st_env st) kT1 (mkc sz a)) (st_mem st)).
  assert (DlA: den (st_env stA) lhs = Ok (mkc sz a)) by (unfold stA; cbn [st_env]; rewrite den_env_set; assumption).
  assert (DrA: den (st_env stA) rhs = Ok (mkc sz b)) by (unfold stA; cbn [st_env]; rewrite den_env_set; assumption).
  assert (D1: den (st_env stA) (EBin Add lhs rhs) = Ok (mkc sz r)).
  { rewrite den_bin, DlA, DrA. cbn [bind]. unfold sp_bin_c. cbn [cbits cval]. rewrite Z.eqb_refl. reflexivity. }
  destruct (alu_core stA sz a b lhs rhs Hwd Bl Br Ha Hb DlA DrA Cl Cr Add r
              (X86.sovf sz (X86.Sg sz a + X86.Sg sz b)) (2 ^ sz <=? a + b) false
              (fun T => c <- mk_bin Cmpltu T lhs ;; Ok (assign_flag X86Lift.n_CF c)) Hr D1 eq_refl
              (of_add_correct sz a b Hwd Ha Hb))
    as (e & zf & sf & of & cf & st2 & E1 & Zf & Sf & Of & Cf & Hasg & Hex & Hfr & Hm & G0 & Ez & Es & Eo & Ec).
  { intros en DT DL. eexists. split; [unfold mk_bin; cbn [e_bits T0e temp_k sbits]; rewrite Bl, Z.eqb_refl; reflexivity|].
    rewrite den_bin, DT, DL. cbn [bind]. unfold sp_bin_c. cbn [cbits cval]. rewrite Z.eqb_refl. cbn [negb sp_bin].
    unfold s_cmpltu. pose proof (cf_add_correct sz a b Hwd Ha Hb) as CA. fold r in CA. rewrite CA. destruct (2 ^ sz <=? a + b); reflexivity. }
  revert Cf. cbn [bind]. destruct (mk_bin Cmpltu (T0e sz) lhs) as [c| |] eqn:Ec5; cbn [bind]; try discriminate. intros Cf. inversion Cf; subst cf.
  exists e, zf, sf, of, c, st2.
  split; [exact E1|]. split; [exact Zf|]. split; [exact Sf|]. split; [exact Of|]. split; [reflexivity|].
  split; [unfold xadd_core_ops; cbn [forallb is_assign]; exact Hasg|].
  split.
  { unfold xadd_core_ops. change (OAssign (temp_k 1 sz) lhs :: ?l) with ([OAssign (temp_k 1 sz) lhs] ++ l).
    rewrite (exec_ops_app [OAssign (temp_k 1 sz) lhs] _ st stA) by (cbn [exec_ops]; rewrite (exec_assign st _ _ _ Dl); reflexivity).
    exact Hex. }
  split.
  { intros k K0 K1 K2 K3 K4 K5. rewrite Hfr by assumption. unfold stA. cbn [st_env]. apply env_get_set_other. exact K1. }
  split; [rewrite Hm; reflexivity|]. split; [exact Hr|]. split; [exact G0|].
  split; [rewrite Hfr by (unfold kT1, kT0, kZF, kSF, kOF, kCF; discriminate); unfold stA; cbn [st_env]; apply env_get_set_same|].
  auto.
Qed.

Lemma frame6_regs m (st2 st : sstate) :
  (forall k, k <> kT0 -> k <> kT1 -> k <> kZF -> k <> kSF -> k <> kOF -> k <> kCF -> env_get (st_env st2) k = env_get (st_env st) k) ->
  (forall r0, 0 <= r0 < ngpr m -> env_get (st_env st2) (gpr_name m r0, None) = env_get (st_env st) (gpr_name m r0, None)) /\
  env_get (st_env st2) kDF = env_get (st_env st) kDF.
Proof. intros Fr. destruct (frame_regs m st2 st Fr) as (A & B & _). auto. Qed.

(* xadd r, r *)
Theorem xadd_sim m addr len sz dst src :
  reg_operand_ok m sz dst -> reg_operand_ok m sz src -> width_ok sz -> sim m addr len (IXadd sz dst src).
Proof.
  intros Hod Hos Hwd s st s' ip Hw He Hstep.
  destruct (reg_operand_shape m sz dst Hod) as (sdd & Hsd & Hrd & Hid).
  destruct (reg_operand_shape m sz src Hos) as (sds & Hss & Hrs & His).
  destruct (reg_expr_facts m sz dst s st sdd Hw He Hod Hsd) as (lhs & Oa & Bl & Cl & Ml & Ha & Dl).
  destruct (reg_expr_facts m sz src s st sds Hw He Hos Hss) as (rhs & Ob & Br & Cr & Mr & Hb & Dr).
  pose proof (rd_reg_operand m sz dst s sdd Hid Hsd) as Rdd. pose proof (rd_reg_operand m sz src s sds His Hss) as Rds.
  set (a := arch_read sdd (wordsz m) (rget (x_gpr s) (oreg dst))) in *.
  set (b := arch_read sds (wordsz m) (rget (x_gpr s) (oreg src))) in *.
  unfold step in Hstep. rewrite Rdd, Rds in Hstep. cbn [alu] in Hstep.
  destruct (xadd_core st sz a b lhs rhs Hwd Bl Br Ha Hb Dl Dr Cl Cr Ml Mr)
    as (e & zf & sf & of & c & st2 & E1 & Zf & Sf & Of & Ec & Hasg & Hex & Hfr & Hm & Hr & G0 & G1 & Gz & Gs & Go & Gc).
  set (r := U sz (a + b)) in *.
  set (fl' := fl_arith (x_fl s) (FB (2 ^ sz <=? a + b)) (FB (X86.sovf sz (X86.Sg sz a + X86.Sg sz b))) sz r) in *.
  destruct (frame6_regs m st2 st Hfr) as (Fr & Fd).
  destruct (emb_after_flags m s st st2 fl' Hw He Fr Fd Hm eq_refl Gc Gz Gs Go) as (He2 & Hw2).
  (* src := t1 *)
  destruct (assign_reg_exec2 m (set_fl s fl') st2 src sz sds (T1e sz) a Hw2 He2 Hrs His Hss eq_refl Ha (T1e_den _ _ _ G1))
    as (o1 & st3 & g1 & Hops1 & Ia1 & Hex1 & Hwr1 & Hemb1 & Hwf1 & Hfr1 & _).
  assert (D3: den (st_env st3) (T0e sz) = Ok (mkc sz r)).
  { apply T0e_den. rewrite Hfr1 by (apply kT0_ne_reg; exact Hrs). exact G0. }
  (* dst := t0 *)
  destruct (assign_reg_exec m (set_gpr (set_fl s fl') g1) st3 dst sz sdd (T0e sz) r Hwf1 Hemb1 Hrd Hid Hsd eq_refl Hr D3)
    as (o2 & Hops2 & Ia2 & st4 & g2 & Hex2 & Hwr2 & Hemb2 & Hwf2).
  assert (Hsp: option_map (fun s0 => set_fl s0 fl') (obind (wr_op sz src a s) (fun s1 => wr_op_at sz dst r s s1))
               = Some (set_gpr (set_gpr (set_fl s fl') g1) g2)).
  { apply xadd_regs_commute; [exact His|exact Hid|]. rewrite Hwr1. cbn [obind]. exact Hwr2. }
  rewrite Hsp in Hstep. inversion Hstep; subst s' ip.
  set (core := xadd_core_ops sz lhs e zf sf of (assign_flag X86Lift.n_CF c)) in *.
  exists (one_block addr (core ++ [o1] ++ [o2])). split.
  - unfold mirror_instr. rewrite His, Hid. cbn [andb orb]. unfold lift_xadd, opl, ost.
    destruct dst; try discriminate Hid; destruct src; try discriminate His; rewrite Oa, Ob; cbn [bind fst snd]; rewrite E1; cbn [bind];
      fold (T0e sz); rewrite Zf; cbn [bind]; rewrite Sf; cbn [bind]; rewrite Of; cbn [bind]; rewrite Ec; cbn [bind]; fold (T1e sz);
      rewrite Hops1; cbn [bind]; rewrite Hops2; cbn [bind app]; reflexivity.
  - exists st4. split; [|auto]. apply run_one_block; [|unfold core, xadd_core_ops; discriminate|unfold core, xadd_core_ops; cbn [length app]; lia|].
    + rewrite !forallb_app. rewrite Hasg. cbn [forallb]. rewrite Ia1, Ia2. reflexivity.
    + rewrite (exec_ops_app core _ st st2 Hex). rewrite (exec_ops_app [o1] _ st2 st3 Hex1). exact Hex2.
Qed.

(* xadd [m], r *)
Theorem xadd_mem_sim m addr len sz dst src :
  mem_operand_ok m dst -> reg_operand_ok m sz src -> width_ok sz -> sim_when (no_wrap sz dst) m addr len (IXadd sz dst src).
Proof.
  intros Hod Hos Hwd s st s' ip Hw He Hnw Hstep.
  destruct (mem_operand_facts m dst s Hw Hod) as (Hea & A64 & P64 & Im). destruct (is_mem_not_reg _ Im) as (Ir & Irg).
  destruct (reg_operand_shape m sz src Hos) as (sds & Hss & Hrs & His).
  unfold step in Hstep. destruct (rd_op sz dst s) as [a|] eqn:Hrd; [|discriminate].
  destruct (load_step m sz dst s st a Hw He Hod Hwd Hnw Hrd) as (ae & ev & Ea & Ex1 & _ & Ha).
  set (st1 := mkst (env_set (st_env st) kTM (mkc sz a)) (st_mem st)) in *.
  pose proof (emb_set_temp m s st sz a He) as He1. fold st1 in He1.
  assert (Dl: den (st_env st1) (EScalar (temp_main sz)) = Ok (mkc sz a)) by (apply temp_main_den; unfold st1; cbn [st_env]; apply env_get_set_same).
  destruct (reg_expr_facts m sz src s st1 sds Hw He1 Hos Hss) as (rhs & Ob & Br & Cr & Mr & Hb & Dr).
  pose proof (rd_reg_operand m sz src s sds His Hss) as Rds.
  set (b := arch_read sds (wordsz m) (rget (x_gpr s) (oreg src))) in *.
  rewrite Rds in Hstep. cbn [alu] in Hstep.
  set (lhs := EScalar (temp_main sz)) in *.
  destruct (xadd_core st1 sz a b lhs rhs Hwd eq_refl Br Ha Hb Dl Dr eq_refl Cr eq_refl Mr)
    as (e & zf & sf & of & c & st2 & E1 & Zf & Sf & Of & Ec & Hasg & Hex & Hfr & Hm & Hr & G0 & G1 & Gz & Gs & Go & Gc).
  set (r := U sz (a + b)) in *.
  set (fl' := fl_arith (x_fl s) (FB (2 ^ sz <=? a + b)) (FB (X86.sovf sz (X86.Sg sz a + X86.Sg sz b))) sz r) in *.
  destruct (frame6_regs m st2 st1 Hfr) as (Fr & Fd).
  destruct (option_map (fun s0 => set_fl s0 fl') (obind (wr_op sz src a s) (fun s1 => wr_op_at sz dst r s s1))) as [sfin|] eqn:Hfin; [|discriminate].
  inversion Hstep; subst s' ip.
  destruct (xadd_mem_split sz src dst a r s fl' sfin His Im Hfin) as (s2 & Hs2 & Hs3).
  destruct (finish_mem m s st1 st2 dst sz r ae (T0e sz) fl' Hw He1 Hod Hwd Hnw Ea Hr (T0e_den _ _ _ G0) Fr Fd Hm eq_refl Gc Gz Gs Go s2 Hs2)
    as (st3 & Hex3 & Hemb3 & Hwf3).
  assert (D3: den (st_env st3) (T1e sz) = Ok (mkc sz a)).
  { apply T1e_den. rewrite (exec_store_env _ _ _ _ Hex3). exact G1. }
  destruct (assign_reg_exec m s2 st3 src sz sds (T1e sz) a Hwf3 Hemb3 Hrs His Hss eq_refl Ha D3)
    as (o1 & Hops1 & Ia1 & st4 & g1 & Hex4 & Hwr4 & Hemb4 & Hwf4).
  rewrite Hwr4 in Hs3. inversion Hs3; subst sfin.
  set (core := xadd_core_ops sz lhs e zf sf of (assign_flag X86Lift.n_CF c)) in *.
  exists (one_block addr (OLoad (temp_main sz) ae :: core ++ [OStore ae (T0e sz)] ++ [o1])). split.
  - unfold mirror_instr. rewrite His, Ir, Im. unfold opnd_mirrored, lift_xadd, opl, ost.
    destruct dst; try discriminate Im; destruct src; try discriminate His; rewrite Ea, Ob; cbn [andb orb bind fst snd]; fold lhs; rewrite E1; cbn [bind];
      fold (T0e sz); rewrite Zf; cbn [bind]; rewrite Sf; cbn [bind]; rewrite Of; cbn [bind]; rewrite Ec; cbn [bind]; fold (T1e sz);
      rewrite Hops1; cbn [bind app]; reflexivity.
  - exists st4. split; [|auto]. apply run_one_block_nb; [|discriminate|unfold core, xadd_core_ops; cbn [length app]; lia|].
    + cbn [nobranch forallb is_branch negb andb]. fold (nobranch (core ++ [OStore ae (T0e sz)] ++ [o1])). unfold nobranch. rewrite !forallb_app.
      pose proof (assign_nobranch _ Hasg) as Nb. unfold nobranch in Nb. rewrite Nb. cbn [forallb is_branch negb andb].
      destruct o1; try discriminate Ia1; reflexivity.
    + change (OLoad (temp_main sz) ae :: core ++ [OStore ae (T0e sz)] ++ [o1]) with ([OLoad (temp_main sz) ae] ++ (core ++ [OStore ae (T0e sz)] ++ [o1])).
      rewrite (exec_ops_app [OLoad (temp_main sz) ae] _ st st1) by (cbn [exec_ops]; rewrite Ex1; reflexivity).
      rewrite (exec_ops_app core _ st1 st2 Hex). rewrite (exec_ops_app [OStore ae (T0e sz)] _ st2 st3 Hex3). exact Hex4.
Qed.
