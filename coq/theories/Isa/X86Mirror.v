(* Isa/X86Mirror.v -- Gallina mirror of the x86 semantics builders for the register / immediate operand
   forms of  mov add sub cmp and or xor inc dec  (lib/translator/x86/semantics.rs, mode.rs operand_load /
   operand_store restricted to X86_OP_REG / X86_OP_IMM), on top of the helper layer of Isa/X86Lift.v.
   The harness passes the decoded form ([X86.instr]); [mirror_instr] returns the instruction graph the real
   lifter must produce (SYNTACTIC tie, checked on every run by Isa/C01Check.v), or None for forms that are
   not mirrored.
   Temporaries: the harness interns  temp_0x<addr>  as 52 and  temp_0x<addr>_<k>  as 53 + k. *)
From Coq Require Import ZArith List Bool NArith.
From Falcon Require Import Base.Res IL.Const IL.Expr IL.Func Isa.X86 Isa.X86Lift.
Import ListNotations.
Local Open Scope Z_scope.

Definition full_name (m : mode) (r : Z) : N := match m with M64 => Z.to_N r | M32 => Z.to_N (38 + r) end.
Definition xreg_for (m : mode) (sz : Z) (o : operand) : option xreg :=
  match o with
  | OReg r => Some (mkreg (full_name m r) (wordsz m) 0 sz (sz =? wordsz m))
  | ORegH r => Some (mkreg (full_name m r) (wordsz m) 8 8 false)
  | _ => None
  end.
Definition temp_k (k : Z) (bits : Z) : scalar := mks (Z.to_N (53 + k)) bits None.

(* Mode::operand_load for register and immediate operands (no block effects) *)
Definition opv (m : mode) (sz : Z) (o : operand) : res expr :=
  match o with
  | OImm v => Ok (expr_const v sz)
  | _ => match xreg_for m sz o with Some r => reg_get r | None => Err ECustom end
  end.
(* Mode::operand_store for register operands *)
Definition ops_store (m : mode) (sz : Z) (o : operand) (v : expr) : res (list operation) :=
  match xreg_for m sz o with Some r => reg_set r v | None => Err ECustom end.

Definition assign_flag (n : N) (e : expr) : operation := OAssign (flag_scalar n) e.

Definition lift_alu_gen (o : aluop) (sz : Z) (lhsr rhsr : res expr) (store : expr -> res (list operation)) : option (res (list operation)) :=
  let t0 := temp_k 0 sz in
  let r := EScalar t0 in
  let logic (op : binop) (xor_same : bool) : res (list operation) :=
      lhs <- lhsr ;; rhs <- rhsr ;;
      e <- (if xor_same && expr_eqb lhs rhs then Ok (expr_const 0 sz) else mk_bin op lhs rhs) ;;
      zf <- set_zf r ;; sf <- set_sf r ;;
      st <- store r ;;
      Ok ([OAssign t0 e; zf; sf; assign_flag X86Lift.n_CF (expr_const 0 1); assign_flag X86Lift.n_OF (expr_const 0 1)] ++ st) in
  match o with
  | AAdd => Some (
      lhs <- lhsr ;; rhs <- rhsr ;;
      e <- mk_bin Add lhs rhs ;;
      zf <- set_zf r ;; sf <- set_sf r ;; of <- set_of r lhs rhs false ;;
      c <- mk_bin Cmpltu r lhs ;;
      st <- store r ;;
      Ok ([OAssign t0 e; zf; sf; of; assign_flag X86Lift.n_CF c] ++ st))
  | ASub => Some (
      lhs <- lhsr ;; rhs <- rhsr ;;
      e <- mk_bin Sub lhs rhs ;;
      zf <- set_zf r ;; sf <- set_sf r ;; of <- set_of r lhs rhs true ;; cf <- set_cf r lhs ;;
      st <- store r ;;
      Ok ([OAssign t0 e; zf; sf; of; cf] ++ st))
  | ACmp => Some (
      lhs <- lhsr ;; rhs <- rhsr ;;
      e <- mk_bin Sub lhs rhs ;;
      zf <- set_zf e ;; sf <- set_sf e ;; of <- set_of e lhs rhs true ;; cf <- set_cf e lhs ;;
      Ok [zf; sf; of; cf])
  | AAnd => Some (logic And false)
  | AOr => Some (logic Or false)
  | AXor => Some (logic Xor true)
  | AAdc => Some (
      lhs <- lhsr ;; rhs <- rhsr ;;
      let t1 := temp_k 1 sz in let s1 := EScalar t1 in
      e1 <- mk_bin Add lhs rhs ;;
      zc <- mk_ext Zext sz (EScalar (flag_scalar X86Lift.n_CF)) ;;
      e0 <- mk_bin Add s1 zc ;;
      zf <- set_zf r ;; sf <- set_sf r ;; of <- set_of r lhs rhs false ;;
      c1 <- mk_bin Cmpltu s1 lhs ;; c2 <- mk_bin Cmpltu r s1 ;; c <- mk_bin Or c1 c2 ;;
      st <- store r ;;
      Ok ([OAssign t1 e1; OAssign t0 e0; zf; sf; of; assign_flag X86Lift.n_CF c] ++ st))
  | ASbb => Some (
      lhs <- lhsr ;; rhs <- rhsr ;;
      let t1 := temp_k 1 sz in let s1 := EScalar t1 in
      e1 <- mk_bin Sub lhs rhs ;;
      zc <- mk_ext Zext sz (EScalar (flag_scalar X86Lift.n_CF)) ;;
      e0 <- mk_bin Sub s1 zc ;;
      zf <- set_zf r ;; sf <- set_sf r ;; of <- set_of r lhs rhs true ;;
      c1 <- mk_bin Cmpltu lhs rhs ;; c2 <- mk_bin Cmpltu s1 zc ;; c <- mk_bin Or c1 c2 ;;
      st <- store r ;;
      Ok ([OAssign t1 e1; OAssign t0 e0; zf; sf; of; assign_flag X86Lift.n_CF c] ++ st))
  | ATest => Some (
      lhs <- lhsr ;; rhs <- rhsr ;;
      e <- mk_bin And lhs rhs ;;
      zf <- set_zf e ;; sf <- set_sf e ;;
      Ok [zf; sf; assign_flag X86Lift.n_CF (expr_const 0 1); assign_flag X86Lift.n_OF (expr_const 0 1)])
  end.

Definition lift_alu_rhs (m : mode) (o : aluop) (sz : Z) (dst : operand) (rhsr : res expr) : option (res (list operation)) :=
  lift_alu_gen o sz (opv m sz dst) rhsr (ops_store m sz dst).
(* register / immediate source *)
Definition lift_alu (m : mode) (o : aluop) (sz : Z) (dst src : operand) : option (res (list operation)) :=
  lift_alu_rhs m o sz dst (opv m sz src).

Definition lift_un_gen (o : unop) (dr : res expr) (store : expr -> res (list operation)) : option (res (list operation)) :=
  let incdec (op : binop) (sub : bool) : res (list operation) :=
      d <- dr ;;
      e <- mk_bin op d (expr_const 1 (e_bits d)) ;;
      zf <- set_zf e ;; sf <- set_sf e ;; of <- set_of e d (expr_const 1 (e_bits d)) sub ;;
      st <- store e ;;
      Ok ([zf; sf; of] ++ st) in
  match o with
  | UInc => Some (incdec Add false)
  | UDec => Some (incdec Sub true)
  | UNeg => Some (
      d <- dr ;;
      let sz := e_bits d in let t0 := temp_k 0 sz in let r := EScalar t0 in
      c <- mk_bin Cmpneq d (expr_const 0 sz) ;;
      e <- mk_bin Sub (expr_const 0 sz) d ;;
      zf <- set_zf r ;; sf <- set_sf r ;; of <- set_of r (expr_const 0 sz) d true ;;
      st <- store r ;;
      Ok ([assign_flag X86Lift.n_CF c; OAssign t0 e; zf; sf; of] ++ st))
  | UNot => Some (d <- dr ;; e <- mk_bin Xor d (expr_const (2 ^ e_bits d - 1) (e_bits d)) ;; store e)
  end.

Definition lift_un (m : mode) (o : unop) (sz : Z) (dst : operand) : option (res (list operation)) :=
  lift_un_gen o (opv m sz dst) (ops_store m sz dst).

Definition lift_mov (m : mode) (sz : Z) (dst src : operand) : res (list operation) :=
  s <- opv m sz src ;; ops_store m sz dst s.

(* Semantics::cc_condition: the condition of setcc / jcc / cmovcc as an expression over the flag scalars *)
Definition n_PF : N := 33%N.
Definition cc_condition (c : cc) : res expr :=
  let fl n := EScalar (flag_scalar n) in
  let is n v := mk_bin Cmpeq (fl n) (expr_const v 1) in
  match c with
  | CA => a <- is X86Lift.n_CF 0 ;; b <- is X86Lift.n_ZF 0 ;; mk_bin And a b
  | CAE => is X86Lift.n_CF 0
  | CB => is X86Lift.n_CF 1
  | CBE => a <- is X86Lift.n_CF 1 ;; b <- is X86Lift.n_ZF 1 ;; mk_bin Or a b
  | CE => is X86Lift.n_ZF 1
  | CG => a <- mk_bin Cmpeq (fl X86Lift.n_SF) (fl X86Lift.n_OF) ;; b <- is X86Lift.n_ZF 0 ;; mk_bin And a b
  | CGE => mk_bin Cmpeq (fl X86Lift.n_SF) (fl X86Lift.n_OF)
  | CL => mk_bin Cmpneq (fl X86Lift.n_SF) (fl X86Lift.n_OF)
  | CLE => a <- mk_bin Cmpneq (fl X86Lift.n_SF) (fl X86Lift.n_OF) ;; b <- is X86Lift.n_ZF 1 ;; mk_bin Or a b
  | CNE => is X86Lift.n_ZF 0
  | CNO => is X86Lift.n_OF 0
  | CNP => is n_PF 0
  | CNS => is X86Lift.n_SF 0
  | CO => is X86Lift.n_OF 1
  | CP => is n_PF 1
  | CS => is X86Lift.n_SF 1
  end.

(* setcc r8: operand_store(dst, zext(8, cc_condition)) *)
Definition lift_setcc (m : mode) (c : cc) (dst : operand) : res (list operation) :=
  e <- cc_condition c ;; z <- mk_ext Zext 8 e ;; ops_store m 8 dst z.

(* movzx / movsx / movsxd with a register source: operand_store(dst, zext|sext(dst bits, src)) *)
Definition lift_movx (m : mode) (sg : bool) (dsz ssz : Z) (dst : Z) (src : operand) : res (list operation) :=
  s <- opv m ssz src ;; v <- mk_ext (if sg then Sext else Zext) dsz s ;; ops_store m dsz (OReg dst) v.

(* Mode::operand_value for a memory operand: the address expression.  Computed at the width of the address
   registers (an address-size prefix selects narrower ones) and zero-extended to the mode width afterwards.
   Absolute and rip-relative operands (no base, no index) are not mirrored. *)
Definition addr_expr (m : mode) (o : operand) : option (res expr) :=
  match o with
  | OMem base index disp asz =>
      match base, index with
      | None, None => None
      | _, _ => Some (
          b <- (match base with Some r => e <- opv m asz (OReg r) ;; Ok (Some e) | None => Ok None end) ;;
          i <- (match index with Some (r, _) => e <- opv m asz (OReg r) ;; Ok (Some e) | None => Ok None end) ;;
          let ab := match b, i with Some e, _ => e_bits e | None, Some e => e_bits e | None, None => wordsz m end in
          si <- (match i, index with
                 | Some e, Some (_, sc) => x <- mk_bin Mul e (expr_const sc ab) ;; Ok (Some x)
                 | _, _ => Ok None end) ;;
          op <- (match b, si with
                 | Some be, Some s => mk_bin Add be s
                 | Some be, None => Ok be
                 | None, Some s => Ok s
                 | None, None => Err ECustom end) ;;
          op <- (if 0 <? disp then mk_bin Add op (expr_const disp ab)
                 else if disp <? 0 then mk_bin Sub op (expr_const (- disp) ab) else Ok op) ;;
          if e_bits op <? wordsz m then mk_ext Zext (wordsz m) op else Ok op)
      end
  | _ => None
  end.

(* lea: dst.set(trun(dst bits, address) if the address is wider) *)
Definition lift_lea (m : mode) (sz : Z) (dst : Z) (src : operand) : option (res (list operation)) :=
  match addr_expr m src with
  | Some ra => Some (a <- ra ;; a' <- (if sz <? e_bits a then mk_ext Trun sz a else Ok a) ;; ops_store m sz (OReg dst) a')
  | None => None
  end.

(* ---- memory operands: Mode::operand_load emits  temp_0x<addr> := load(address)  and yields the temporary;
        Mode::operand_store emits  store(address, value) ---- *)
Definition temp_main (bits : Z) : scalar := mks 52%N bits None.
Definition is_mem (o : operand) : bool := match o with OMem _ _ _ _ => true | _ => false end.

(* mov r, [m] *)
Definition lift_mov_load (m : mode) (sz : Z) (dst src : operand) : option (res (list operation)) :=
  match addr_expr m src with
  | Some ra => Some (a <- ra ;; st <- ops_store m sz dst (EScalar (temp_main sz)) ;; Ok (OLoad (temp_main sz) a :: st))
  | None => None
  end.
(* mov [m], r | imm *)
Definition lift_mov_store (m : mode) (sz : Z) (dst src : operand) : option (res (list operation)) :=
  match addr_expr m dst with
  | Some ra => Some (v <- opv m sz src ;; a <- ra ;; Ok [OStore a v])
  | None => None
  end.
(* add/sub/cmp/and/or/xor r, [m] *)
Definition lift_alu_load (m : mode) (o : aluop) (sz : Z) (dst src : operand) : option (res (list operation)) :=
  match addr_expr m src, lift_alu_rhs m o sz dst (Ok (EScalar (temp_main sz))) with
  | Some ra, Some body => Some (a <- ra ;; ops <- body ;; Ok (OLoad (temp_main sz) a :: ops))
  | _, _ => None
  end.
(* add/sub/cmp/and/or/xor [m], r | imm : load, compute, (store) *)
Definition lift_alu_rmw (m : mode) (o : aluop) (sz : Z) (dst src : operand) : option (res (list operation)) :=
  match addr_expr m dst with
  | Some ra =>
      match lift_alu_gen o sz (Ok (EScalar (temp_main sz))) (opv m sz src) (fun v => a <- ra ;; Ok [OStore a v]) with
      | Some body => Some (a <- ra ;; ops <- body ;; Ok (OLoad (temp_main sz) a :: ops))
      | None => None
      end
  | None => None
  end.
(* inc / dec [m] *)
Definition lift_un_rmw (m : mode) (o : unop) (sz : Z) (dst : operand) : option (res (list operation)) :=
  match addr_expr m dst with
  | Some ra =>
      match lift_un_gen o (Ok (EScalar (temp_main sz))) (fun v => a <- ra ;; Ok [OStore a v]) with
      | Some body => Some (a <- ra ;; ops <- body ;; Ok (OLoad (temp_main sz) a :: ops))
      | None => None
      end
  | None => None
  end.
(* ---- stack: Mode::push_value (store at sp - n, then sp := sp - n; n = bytes of the value) and Mode::pop_value
        (temp_0x<addr> := load(sp); sp := sp + n) ---- *)
Definition sp_scalar (m : mode) : scalar := mks (full_name m 4) (wordsz m) None.
Definition lift_push (m : mode) (sz : Z) (src : operand) : option (res (list operation)) :=
  let sp := EScalar (sp_scalar m) in
  let body (pre : list operation) (v : expr) : res (list operation) :=
      nsp <- mk_bin Sub sp (expr_const (e_bits v / 8) (wordsz m)) ;;
      Ok (pre ++ [OStore nsp v; OAssign (sp_scalar m) nsp]) in
  match src with
  | OMem _ _ _ _ => match addr_expr m src with
                    | Some ra => Some (a <- ra ;; body [OLoad (temp_main sz) a] (EScalar (temp_main sz)))
                    | None => None end
  | _ => Some (v <- opv m sz src ;; body [] v)
  end.
Definition lift_pop (m : mode) (sz : Z) (dst : operand) : option (res (list operation)) :=
  let sp := EScalar (sp_scalar m) in
  let t := temp_main sz in
  match dst with
  | OMem _ _ _ _ => match addr_expr m dst with
                    | Some ra => Some (nsp <- mk_bin Add sp (expr_const (sz / 8) (wordsz m)) ;; a <- ra ;;
                                       Ok [OLoad t sp; OAssign (sp_scalar m) nsp; OStore a (EScalar t)])
                    | None => None end
  | OImm _ => None
  | _ => Some (nsp <- mk_bin Add sp (expr_const (sz / 8) (wordsz m)) ;; st <- ops_store m sz dst (EScalar t) ;;
               Ok (OLoad t sp :: OAssign (sp_scalar m) nsp :: st))
  end.

(* movzx / movsx r, [m] *)
Definition lift_movx_load (m : mode) (sg : bool) (dsz ssz : Z) (dst : Z) (src : operand) : option (res (list operation)) :=
  match addr_expr m src with
  | Some ra => Some (a <- ra ;; v <- mk_ext (if sg then Sext else Zext) dsz (EScalar (temp_main ssz)) ;;
                     st <- ops_store m dsz (OReg dst) v ;; Ok (OLoad (temp_main ssz) a :: st))
  | None => None
  end.

(* ---- round 6: Mode::operand_load / operand_store for any mirrored operand kind in one function each ---- *)
Definition opnd_mirrored (m : mode) (o : operand) : bool :=
  match o with OMem _ _ _ _ => match addr_expr m o with Some _ => true | None => false end | _ => true end.
(* the operations operand_load appends to the block and the expression it yields *)
Definition opl (m : mode) (sz : Z) (o : operand) : res (list operation * expr) :=
  match o with
  | OMem _ _ _ _ => match addr_expr m o with
                    | Some ra => a <- ra ;; Ok ([OLoad (temp_main sz) a], EScalar (temp_main sz))
                    | None => Err ECustom end
  | _ => e <- opv m sz o ;; Ok ([], e)
  end.
Definition ost (m : mode) (sz : Z) (o : operand) (v : expr) : res (list operation) :=
  match o with
  | OMem _ _ _ _ => match addr_expr m o with Some ra => a <- ra ;; Ok [OStore a v] | None => Err ECustom end
  | _ => ops_store m sz o v
  end.

(* xchg a, b:  t0 := a; a := b; b := t0 *)
Definition lift_xchg (m : mode) (sz : Z) (a b : operand) : res (list operation) :=
  la <- opl m sz a ;; lb <- opl m sz b ;;
  let t0 := temp_k 0 sz in
  sa <- ost m sz a (snd lb) ;; sb <- ost m sz b (EScalar t0) ;;
  Ok (fst la ++ fst lb ++ [OAssign t0 (snd la)] ++ sa ++ sb).

(* xadd dst, src:  t1 := dst; t0 := dst + src; flags; register destination: src := t1, dst := t0 (this order);
   memory destination: store first, then src := t1 *)
Definition lift_xadd (m : mode) (sz : Z) (dst src : operand) : res (list operation) :=
  la <- opl m sz dst ;; lb <- opl m sz src ;;
  let lhs := snd la in let rhs := snd lb in
  let t0 := temp_k 0 sz in let t1 := temp_k 1 sz in let r := EScalar t0 in
  e <- mk_bin Add lhs rhs ;;
  zf <- set_zf r ;; sf <- set_sf r ;; of <- set_of r lhs rhs false ;;
  c <- mk_bin Cmpltu r lhs ;;
  st <- (if match dst with OMem _ _ _ _ => false | _ => true end
         then s1 <- ost m sz src (EScalar t1) ;; s0 <- ost m sz dst r ;; Ok (s1 ++ s0)
         else s0 <- ost m sz dst r ;; s1 <- ost m sz src (EScalar t1) ;; Ok (s0 ++ s1)) ;;
  Ok (fst la ++ fst lb ++ [OAssign t1 lhs; OAssign t0 e; zf; sf; of; assign_flag X86Lift.n_CF c] ++ st).

(* imul (two- and three-operand forms): t0 (2*sz bits) := sext(a) * sext(b); dst := trun(t0); OF := t0 != sext(trun(t0)); CF := OF *)
Definition lift_imul (m : mode) (sz : Z) (dst : Z) (a b : operand) : res (list operation) :=
  la <- opl m sz a ;; lb <- opl m sz b ;;
  let w := 2 * sz in let t0 := temp_k 0 w in let r := EScalar t0 in
  x <- mk_ext Sext w (snd la) ;; y <- mk_ext Sext w (snd lb) ;;
  p <- mk_bin Mul x y ;;
  tr <- mk_ext Trun sz r ;;
  st <- ost m sz (OReg dst) tr ;;
  sx <- mk_ext Sext w tr ;;
  c <- mk_bin Cmpneq r sx ;;
  Ok (fst la ++ fst lb ++ [OAssign t0 p] ++ st ++ [assign_flag X86Lift.n_OF c; assign_flag X86Lift.n_CF (EScalar (flag_scalar X86Lift.n_OF))]).

(* ---- shl / shr / sar: count masked to 5 (6) bits and brought to the operand width; every flag keeps its value when
        the masked count is zero (ite on the count) ---- *)
Definition masked_count (bits : Z) (count : expr) : res expr :=
  c <- mk_bin And count (expr_const (if bits =? 64 then 63 else 31) (e_bits count)) ;;
  if e_bits c <? bits then mk_ext Zext bits c else if bits <? e_bits c then mk_ext Trun bits c else Ok c.
Definition msb_expr (e : expr) : res expr :=
  s <- mk_bin Shr e (expr_const (e_bits e - 1) (e_bits e)) ;; mk_ext Trun 1 s.
Definition flag_unless_zero (n : N) (count value : expr) : res operation :=
  z <- mk_bin Cmpeq count (expr_const 0 (e_bits count)) ;;
  i <- mk_ite z (EScalar (flag_scalar n)) value ;; Ok (assign_flag n i).
Definition shift_binop (o : shop) : binop := match o with SShl => Shl | SShr => Shr | _ => AShr end.
Definition lift_shift (m : mode) (o : shop) (sz csz : Z) (dst cnt : operand) : option (res (list operation)) :=
  match o with
  | SShl | SShr | SSar => Some (
      la <- opl m sz dst ;; lb <- opl m csz cnt ;;
      let lhs := snd la in
      c <- masked_count (e_bits lhs) (snd lb) ;;
      e <- mk_bin (shift_binop o) lhs c ;;
      c1 <- mk_bin Sub c (expr_const 1 (e_bits c)) ;;
      pre <- mk_bin (shift_binop o) lhs c1 ;;
      cf <- (match o with SShl => msb_expr pre | _ => mk_ext Trun 1 pre end) ;;
      of <- (match o with
             | SShl => me <- msb_expr e ;; mk_bin Xor cf me
             | SShr => msb_expr lhs
             | _ => Ok (expr_const 0 1) end) ;;
      zfv <- mk_bin Cmpeq e (expr_const 0 (e_bits e)) ;;
      sfv <- msb_expr e ;;
      a1 <- flag_unless_zero X86Lift.n_CF c cf ;; a2 <- flag_unless_zero X86Lift.n_OF c of ;;
      a3 <- flag_unless_zero X86Lift.n_ZF c zfv ;; a4 <- flag_unless_zero X86Lift.n_SF c sfv ;;
      st <- ost m sz dst e ;;
      Ok (fst la ++ fst lb ++ [a1; a2; a3; a4] ++ st))
  | _ => None
  end.

(* rol / ror: rotate by (masked count) mod size, as (x << k) | (x >> (size - k)) resp. (x >> k) | (x << (size - k));
   only CF and OF are written (and kept for a zero masked count) *)
Definition lift_rot (m : mode) (isl : bool) (sz csz : Z) (dst cnt : operand) : res (list operation) :=
  la <- opl m sz dst ;; lb <- opl m csz cnt ;;
  let lhs := snd la in let w := e_bits lhs in
  c <- masked_count w (snd lb) ;;
  rot <- mk_bin And c (expr_const (w - 1) w) ;;
  oth <- mk_bin Sub (expr_const w w) rot ;;
  x <- mk_bin (if isl then Shl else Shr) lhs rot ;;
  y <- mk_bin (if isl then Shr else Shl) lhs oth ;;
  res <- mk_bin Or x y ;;
  fl <- (if isl then
           cf <- mk_ext Trun 1 res ;; a1 <- flag_unless_zero X86Lift.n_CF c cf ;;
           ms <- msb_expr res ;; of <- mk_bin Xor ms cf ;; a2 <- flag_unless_zero X86Lift.n_OF c of ;; Ok [a1; a2]
         else
           cf <- msb_expr res ;; a1 <- flag_unless_zero X86Lift.n_CF c cf ;;
           sh <- mk_bin Shr res (expr_const (w - 2) w) ;; sec <- mk_ext Trun 1 sh ;;
           of <- mk_bin Xor cf sec ;; a2 <- flag_unless_zero X86Lift.n_OF c of ;; Ok [a1; a2]) ;;
  st <- ost m sz dst res ;;
  Ok (fst la ++ fst lb ++ fl ++ st).
Definition lift_shift_any (m : mode) (o : shop) (sz csz : Z) (dst cnt : operand) : option (res (list operation)) :=
  match o with
  | SRol => Some (lift_rot m true sz csz dst cnt)
  | SRor => Some (lift_rot m false sz csz dst cnt)
  | _ => lift_shift m o sz csz dst cnt
  end.

(* bt / bts / btr / btc with a register or immediate bit offset that is taken modulo the operand size (register base, or
   memory base with an immediate offset).  An offset narrower than the base is zero-extended through temp 0. *)
Definition lift_bt (m : mode) (o : btop) (sz : Z) (dst src : operand) : res (list operation) :=
  la <- opl m sz dst ;;
  lb <- opl m (match src with OImm _ => 8 | _ => sz end) src ;;
  let base := snd la in let w := e_bits base in
  let t0 := temp_k 0 w in let t1 := temp_k 1 w in
  pr <- (if e_bits (snd lb) =? w then Ok ([], snd lb) else z <- mk_ext Zext w (snd lb) ;; Ok ([OAssign t0 z], EScalar t0)) ;;
  off <- mk_bin And (snd pr) (expr_const (w - 1) w) ;;
  sh <- mk_bin Shr base off ;;
  match o with
  | BtT => c <- mk_ext Trun 1 (EScalar t0) ;;
           Ok (fst la ++ fst lb ++ fst pr ++ [OAssign t0 sh; assign_flag X86Lift.n_CF c])
  | _ => c <- mk_ext Trun 1 (EScalar t1) ;;
         one <- mk_bin Shl (expr_const 1 w) off ;;
         e <- (match o with
               | BtS => mk_bin Or base one
               | BtR => x <- mk_bin Xor one (expr_const U64MAX w) ;; mk_bin And base x
               | _ => mk_bin Xor base one end) ;;
         st <- ost m sz dst e ;;
         Ok (fst la ++ fst lb ++ fst pr ++ [OAssign t1 sh; assign_flag X86Lift.n_CF c] ++ st)
  end.

Definition regimm (o : operand) : bool := match o with OReg _ | ORegH _ | OImm _ => true | _ => false end.
Definition isreg (o : operand) : bool := match o with OReg _ | ORegH _ => true | _ => false end.

(* ---- the successor list translate_block derives for the instruction (address, guard); instructions that end in a Branch
        operation leave through it (no successor needed); everything else falls through ---- *)
Definition not_cond (e : expr) : expr := EBin Cmpeq e (expr_const 0 1).
(* jcxz / jecxz: the count register at its own width is zero;  loop / loope / loopne: the decremented full-width count
   register is not zero (and ZF = 1 / ZF = 0) *)
Definition jcxz_cond (m : mode) (csz : Z) : res expr :=
  cx <- opv m csz (OReg 1) ;; mk_bin Cmpeq cx (expr_const 0 csz).
Definition loop_cond (m : mode) (k : Z) : res expr :=
  cx <- opv m (wordsz m) (OReg 1) ;;
  nz <- mk_bin Cmpneq cx (expr_const 0 (wordsz m)) ;;
  if k =? 0 then Ok nz
  else z <- mk_bin Cmpeq (EScalar (flag_scalar X86Lift.n_ZF)) (expr_const (if k =? 1 then 1 else 0) 1) ;; mk_bin And nz z.
(* fall-through under the negated guard, target under the guard; one successor with the disjunction when both are the
   same address (translate_block merges successors with equal addresses) *)
Definition cond_succs (next t : Z) (e : expr) : list (Z * option expr) :=
  if t =? next then [(t, Some (EBin Or (not_cond e) e))] else [(next, Some (not_cond e)); (t, Some e)].
Definition mirror_succ (m : mode) (addr len : Z) (i : instr) : list (Z * option expr) :=
  match i with
  | IJmpRel t => [(t, None)]
  | IRet _ | IRet0 | IJmpInd _ => []
  | IJcc c t => match cc_condition c with Ok e => cond_succs (addr + len) t e | _ => [] end
  | IJcxz csz t => match jcxz_cond m csz with Ok e => cond_succs (addr + len) t e | _ => [] end
  | ILoop k t => match loop_cond m k with Ok e => cond_succs (addr + len) t e | _ => [] end
  | _ => [(addr + len, None)]
  end.

Fixpoint number_ops (addr : Z) (i : Z) (ops : list operation) : list instruction :=
  match ops with [] => [] | o :: t => mkinstr i o (Some addr) :: number_ops addr (i + 1) t end.
Definition one_block (addr : Z) (ops : list operation) : cfg :=
  mkcfg [mkblock 0 (Z.of_nat (length ops)) (number_ops addr 0 ops) []] [] 1 (Some 0) (Some 0).

(* the three-block graph of a guarded instruction: head (nop) --c--> body --> exit, head --not c--> exit *)
Definition diamond (addr : Z) (c : expr) (ops2 : list operation) : cfg :=
  mkcfg [mkblock 0 1 [mkinstr 0 (ONop None) (Some addr)] []; mkblock 1 0 [] [];
         mkblock 2 (Z.of_nat (length ops2)) (number_ops addr 0 ops2) []]
        [mkedge 0 1 (Some (not_cond c)); mkedge 0 2 (Some c); mkedge 2 1 None] 3 (Some 0) (Some 1).
(* the four-block graph of cmovcc r32 in long mode: head --c--> body2 --> exit, head --not c--> body3 --> exit *)
Definition diamond4 (addr : Z) (c : expr) (ops2 ops3 : list operation) : cfg :=
  mkcfg [mkblock 0 1 [mkinstr 0 (ONop None) (Some addr)] []; mkblock 1 0 [] [];
         mkblock 2 (Z.of_nat (length ops2)) (number_ops addr 0 ops2) [];
         mkblock 3 (Z.of_nat (length ops3)) (number_ops addr 0 ops3) []]
        [mkedge 0 2 (Some c); mkedge 0 3 (Some (not_cond c)); mkedge 2 1 None; mkedge 3 1 None] 4 (Some 0) (Some 1).
(* cmovcc: the move (with the load of a memory source) sits in the guarded block; a 32-bit destination in long mode is
   rewritten with itself (zero-extension) when the condition is false *)
Definition lift_cmov (m : mode) (addr : Z) (c : cc) (sz dst : Z) (src : operand) : res cfg :=
  e <- cc_condition c ;;
  la <- opl m sz src ;;
  st <- ost m sz (OReg dst) (snd la) ;;
  if (match m with M64 => true | M32 => false end) && (sz =? 32) then
    d <- opv m sz (OReg dst) ;; st3 <- ost m sz (OReg dst) d ;; Ok (diamond4 addr e (fst la ++ st) st3)
  else Ok (diamond addr e (fst la ++ st)).
Definition branch_nop (m : mode) (t : Z) : operation := ONop (Some (OBranch (expr_const t (wordsz m)))).

(* ret (imm = -1 here: no operand) / ret imm16: temp := load(sp); sp := sp + word; (sp := sp + imm;) branch temp *)
Definition lift_ret (m : mode) (imm : Z) : res (list operation) :=
  let w := wordsz m in let sp := EScalar (sp_scalar m) in let t := temp_main w in
  n1 <- mk_bin Add sp (expr_const (w / 8) w) ;;
  n2 <- mk_bin Add sp (expr_const imm w) ;;
  Ok ([OLoad t sp; OAssign (sp_scalar m) n1] ++ (if imm <? 0 then [] else [OAssign (sp_scalar m) n2]) ++ [OBranch (EScalar t)]).
(* jmp r/m *)
Definition lift_jmp_ind (m : mode) (src : operand) : res (list operation) :=
  la <- opl m (wordsz m) src ;; Ok (fst la ++ [OBranch (snd la)]).
(* loop*: the count register is decremented; the successors carry the guards *)
Definition lift_loop (m : mode) : res (list operation) :=
  cx <- opv m (wordsz m) (OReg 1) ;; d <- mk_bin Sub cx (expr_const 1 (wordsz m)) ;; ops_store m (wordsz m) (OReg 1) d.

(* call: (operand_load of the target;) push the return address; branch.  A stack-pointer register target is copied to
   temp 0 first (it is read before the push) *)
Definition lift_call (m : mode) (next : Z) (tgt : res (list operation * expr)) (sp_target : bool) : res (list operation) :=
  let w := wordsz m in let sp := EScalar (sp_scalar m) in
  la <- tgt ;;
  let sv := if sp_target then [OAssign (temp_k 0 w) (snd la)] else [] in
  let te := if sp_target then EScalar (temp_k 0 w) else snd la in
  nsp <- mk_bin Sub sp (expr_const (w / 8) w) ;;
  Ok (fst la ++ sv ++ [OStore nsp (expr_const next w); OAssign (sp_scalar m) nsp; OBranch te]).

Definition mirror_instr (m : mode) (addr len : Z) (i : instr) : option (res cfg) :=
  let wrap (r : res (list operation)) : res cfg := ops <- r ;; Ok (one_block addr ops) in
  match i with
  | IMov sz dst src => if isreg dst && regimm src then Some (wrap (lift_mov m sz dst src))
                       else if isreg dst && is_mem src then option_map wrap (lift_mov_load m sz dst src)
                       else if is_mem dst && regimm src then option_map wrap (lift_mov_store m sz dst src) else None
  | IAlu o sz dst src => if isreg dst && regimm src then option_map wrap (lift_alu m o sz dst src)
                         else if isreg dst && is_mem src then option_map wrap (lift_alu_load m o sz dst src)
                         else if is_mem dst && regimm src then option_map wrap (lift_alu_rmw m o sz dst src) else None
  | IUn o sz dst => if isreg dst then option_map wrap (lift_un m o sz dst)
                    else if is_mem dst then option_map wrap (lift_un_rmw m o sz dst) else None
  | ISetcc c dst => if isreg dst then Some (wrap (lift_setcc m c dst)) else None
  | ILea sz dst src => option_map wrap (lift_lea m sz dst src)
  | IPush sz src => option_map wrap (lift_push m sz src)
  | IPop sz dst => option_map wrap (lift_pop m sz dst)
  | IXchg sz a b => if isreg b && (isreg a || (is_mem a && opnd_mirrored m a)) then Some (wrap (lift_xchg m sz a b)) else None
  | IXadd sz a b => if isreg b && (isreg a || (is_mem a && opnd_mirrored m a)) then Some (wrap (lift_xadd m sz a b)) else None
  | IImul2 sz dst src => if isreg src || (is_mem src && opnd_mirrored m src) then Some (wrap (lift_imul m sz dst (OReg dst) src)) else None
  | IImul3 sz dst src imm => if isreg src || (is_mem src && opnd_mirrored m src) then Some (wrap (lift_imul m sz dst src (OImm imm))) else None
  | IShift o sz dst cnt => if (isreg dst || (is_mem dst && opnd_mirrored m dst)) && regimm cnt then option_map wrap (lift_shift_any m o sz 8 dst cnt) else None
  | IShift1 o sz dst => if isreg dst || (is_mem dst && opnd_mirrored m dst) then option_map wrap (lift_shift_any m o sz sz dst (OImm 1)) else None
  | ICallRel t => Some (wrap (lift_call m (addr + len) (Ok ([], expr_const t (wordsz m))) false))
  | ICallInd src => if isreg src || (is_mem src && opnd_mirrored m src)
                    then Some (wrap (lift_call m (addr + len) (opl m (wordsz m) src) (match src with OReg 4 => true | _ => false end))) else None
  | ICmov c sz dst src => if isreg src || (is_mem src && opnd_mirrored m src) then Some (lift_cmov m addr c sz dst src) else None
  | IJmpRel t => Some (Ok (one_block addr [branch_nop m t]))
  | IJmpInd src => if isreg src || (is_mem src && opnd_mirrored m src) then Some (wrap (lift_jmp_ind m src)) else None
  | IRet imm => if 0 <=? imm then Some (wrap (lift_ret m imm)) else None
  | IRet0 => Some (wrap (lift_ret m (-1)))
  | ILoop k t => Some (wrap (lift_loop m))
  | IJcc c t => Some (e <- cc_condition c ;; Ok (diamond addr e [branch_nop m t]))
  | IJcxz csz t => Some (e <- jcxz_cond m csz ;; Ok (diamond addr e [branch_nop m t]))
  | IBt o sz dst src => if (isreg dst && regimm src) || (is_mem dst && opnd_mirrored m dst && match src with OImm _ => true | _ => false end)
                        then Some (wrap (lift_bt m o sz dst src)) else None
  | IMovx sg dsz ssz dst src => if isreg src then Some (wrap (lift_movx m sg dsz ssz dst src))
                                else if is_mem src then option_map wrap (lift_movx_load m sg dsz ssz dst src) else None
  | _ => None
  end.
