(* Isa/X86Mirror.v -- Gallina mirror of the x86 semantics builders for the register / immediate operand
   forms of  mov add sub cmp and or xor inc dec  (lib/translator/x86/semantics.rs, mode.rs operand_load /
   operand_store restricted to X86_OP_REG / X86_OP_IMM), on top of the helper layer of Isa/X86Lift.v.
   The harness passes the decoded form ([X86.instr]); [mirror_instr] returns the instruction graph the real
   lifter must produce (SYNTACTIC tie, checked on every run by Isa/C01Check.v), or None for forms that are
   not mirrored.
   Temporaries: the harness interns  temp_0x<addr>  as 52 and  temp_0x<addr>_<k>  as 53 + k. *)
From Coq Require Import ZArith List Bool NArith.
From Falcon Require Import Base.Res IL.Const IL.Expr IL.Func Isa.X86 Isa.X86Lift.
Import ListNotations.
Local Open Scope Z_scope.

Definition full_name (m : mode) (r : Z) : N := match m with M64 => Z.to_N r | M32 => Z.to_N (38 + r) end.
Definition xreg_for (m : mode) (sz : Z) (o : operand) : option xreg :=
  match o with
  | OReg r => Some (mkreg (full_name m r) (wordsz m) 0 sz (sz =? wordsz m))
  | ORegH r => Some (mkreg (full_name m r) (wordsz m) 8 8 false)
  | _ => None
  end.
Definition temp_k (k : Z) (bits : Z) : scalar := mks (Z.to_N (53 + k)) bits None.

(* Mode::operand_load for register and immediate operands (no block effects) *)
Definition opv (m : mode) (sz : Z) (o : operand) : res expr :=
  match o with
  | OImm v => Ok (expr_const v sz)
  | _ => match xreg_for m sz o with Some r => reg_get r | None => Err ECustom end
  end.
(* Mode::operand_store for register operands *)
Definition ops_store (m : mode) (sz : Z) (o : operand) (v : expr) : res (list operation) :=
  match xreg_for m sz o with Some r => reg_set r v | None => Err ECustom end.

Definition assign_flag (n : N) (e : expr) : operation := OAssign (flag_scalar n) e.

Definition lift_alu (m : mode) (o : aluop) (sz : Z) (dst src : operand) : option (res (list operation)) :=
  let t0 := temp_k 0 sz in
  let r := EScalar t0 in
  let logic (op : binop) (xor_same : bool) : res (list operation) :=
      lhs <- opv m sz dst ;; rhs <- opv m sz src ;;
      e <- (if xor_same && expr_eqb lhs rhs then Ok (expr_const 0 sz) else mk_bin op lhs rhs) ;;
      zf <- set_zf r ;; sf <- set_sf r ;;
      st <- ops_store m sz dst r ;;
      Ok ([OAssign t0 e; zf; sf; assign_flag X86Lift.n_CF (expr_const 0 1); assign_flag X86Lift.n_OF (expr_const 0 1)] ++ st) in
  match o with
  | AAdd => Some (
      lhs <- opv m sz dst ;; rhs <- opv m sz src ;;
      e <- mk_bin Add lhs rhs ;;
      zf <- set_zf r ;; sf <- set_sf r ;; of <- set_of r lhs rhs false ;;
      c <- mk_bin Cmpltu r lhs ;;
      st <- ops_store m sz dst r ;;
      Ok ([OAssign t0 e; zf; sf; of; assign_flag X86Lift.n_CF c] ++ st))
  | ASub => Some (
      lhs <- opv m sz dst ;; rhs <- opv m sz src ;;
      e <- mk_bin Sub lhs rhs ;;
      zf <- set_zf r ;; sf <- set_sf r ;; of <- set_of r lhs rhs true ;; cf <- set_cf r lhs ;;
      st <- ops_store m sz dst r ;;
      Ok ([OAssign t0 e; zf; sf; of; cf] ++ st))
  | ACmp => Some (
      lhs <- opv m sz dst ;; rhs <- opv m sz src ;;
      e <- mk_bin Sub lhs rhs ;;
      zf <- set_zf e ;; sf <- set_sf e ;; of <- set_of e lhs rhs true ;; cf <- set_cf e lhs ;;
      Ok [zf; sf; of; cf])
  | AAnd => Some (logic And false)
  | AOr => Some (logic Or false)
  | AXor => Some (logic Xor true)
  | _ => None
  end.

Definition lift_un (m : mode) (o : unop) (sz : Z) (dst : operand) : option (res (list operation)) :=
  let incdec (op : binop) (sub : bool) : res (list operation) :=
      d <- opv m sz dst ;;
      e <- mk_bin op d (expr_const 1 (e_bits d)) ;;
      zf <- set_zf e ;; sf <- set_sf e ;; of <- set_of e d (expr_const 1 (e_bits d)) sub ;;
      st <- ops_store m sz dst e ;;
      Ok ([zf; sf; of] ++ st) in
  match o with
  | UInc => Some (incdec Add false)
  | UDec => Some (incdec Sub true)
  | _ => None
  end.

Definition lift_mov (m : mode) (sz : Z) (dst src : operand) : res (list operation) :=
  s <- opv m sz src ;; ops_store m sz dst s.

(* Semantics::cc_condition: the condition of setcc / jcc / cmovcc as an expression over the flag scalars *)
Definition n_PF : N := 33%N.
Definition cc_condition (c : cc) : res expr :=
  let fl n := EScalar (flag_scalar n) in
  let is n v := mk_bin Cmpeq (fl n) (expr_const v 1) in
  match c with
  | CA => a <- is X86Lift.n_CF 0 ;; b <- is X86Lift.n_ZF 0 ;; mk_bin And a b
  | CAE => is X86Lift.n_CF 0
  | CB => is X86Lift.n_CF 1
  | CBE => a <- is X86Lift.n_CF 1 ;; b <- is X86Lift.n_ZF 1 ;; mk_bin Or a b
  | CE => is X86Lift.n_ZF 1
  | CG => a <- mk_bin Cmpeq (fl X86Lift.n_SF) (fl X86Lift.n_OF) ;; b <- is X86Lift.n_ZF 0 ;; mk_bin And a b
  | CGE => mk_bin Cmpeq (fl X86Lift.n_SF) (fl X86Lift.n_OF)
  | CL => mk_bin Cmpneq (fl X86Lift.n_SF) (fl X86Lift.n_OF)
  | CLE => a <- mk_bin Cmpneq (fl X86Lift.n_SF) (fl X86Lift.n_OF) ;; b <- is X86Lift.n_ZF 1 ;; mk_bin Or a b
  | CNE => is X86Lift.n_ZF 0
  | CNO => is X86Lift.n_OF 0
  | CNP => is n_PF 0
  | CNS => is X86Lift.n_SF 0
  | CO => is X86Lift.n_OF 1
  | CP => is n_PF 1
  | CS => is X86Lift.n_SF 1
  end.

(* setcc r8: operand_store(dst, zext(8, cc_condition)) *)
Definition lift_setcc (m : mode) (c : cc) (dst : operand) : res (list operation) :=
  e <- cc_condition c ;; z <- mk_ext Zext 8 e ;; ops_store m 8 dst z.

(* movzx / movsx / movsxd with a register source: operand_store(dst, zext|sext(dst bits, src)) *)
Definition lift_movx (m : mode) (sg : bool) (dsz ssz : Z) (dst : Z) (src : operand) : res (list operation) :=
  s <- opv m ssz src ;; v <- mk_ext (if sg then Sext else Zext) dsz s ;; ops_store m dsz (OReg dst) v.

(* Mode::operand_value for a memory operand: the address expression.  Computed at the width of the address
   registers (an address-size prefix selects narrower ones) and zero-extended to the mode width afterwards.
   Absolute and rip-relative operands (no base, no index) are not mirrored. *)
Definition addr_expr (m : mode) (o : operand) : option (res expr) :=
  match o with
  | OMem base index disp asz =>
      match base, index with
      | None, None => None
      | _, _ => Some (
          b <- (match base with Some r => e <- opv m asz (OReg r) ;; Ok (Some e) | None => Ok None end) ;;
          i <- (match index with Some (r, _) => e <- opv m asz (OReg r) ;; Ok (Some e) | None => Ok None end) ;;
          let ab := match b, i with Some e, _ => e_bits e | None, Some e => e_bits e | None, None => wordsz m end in
          si <- (match i, index with
                 | Some e, Some (_, sc) => x <- mk_bin Mul e (expr_const sc ab) ;; Ok (Some x)
                 | _, _ => Ok None end) ;;
          op <- (match b, si with
                 | Some be, Some s => mk_bin Add be s
                 | Some be, None => Ok be
                 | None, Some s => Ok s
                 | None, None => Err ECustom end) ;;
          op <- (if 0 <? disp then mk_bin Add op (expr_const disp ab)
                 else if disp <? 0 then mk_bin Sub op (expr_const (- disp) ab) else Ok op) ;;
          if e_bits op <? wordsz m then mk_ext Zext (wordsz m) op else Ok op)
      end
  | _ => None
  end.

(* lea: dst.set(trun(dst bits, address) if the address is wider) *)
Definition lift_lea (m : mode) (sz : Z) (dst : Z) (src : operand) : option (res (list operation)) :=
  match addr_expr m src with
  | Some ra => Some (a <- ra ;; a' <- (if sz <? e_bits a then mk_ext Trun sz a else Ok a) ;; ops_store m sz (OReg dst) a')
  | None => None
  end.

Definition regimm (o : operand) : bool := match o with OReg _ | ORegH _ | OImm _ => true | _ => false end.
Definition isreg (o : operand) : bool := match o with OReg _ | ORegH _ => true | _ => false end.

Fixpoint number_ops (addr : Z) (i : Z) (ops : list operation) : list instruction :=
  match ops with [] => [] | o :: t => mkinstr i o (Some addr) :: number_ops addr (i + 1) t end.
Definition one_block (addr : Z) (ops : list operation) : cfg :=
  mkcfg [mkblock 0 (Z.of_nat (length ops)) (number_ops addr 0 ops) []] [] 1 (Some 0) (Some 0).

Definition mirror_instr (m : mode) (addr : Z) (i : instr) : option (res cfg) :=
  let wrap (r : res (list operation)) : res cfg := ops <- r ;; Ok (one_block addr ops) in
  match i with
  | IMov sz dst src => if isreg dst && regimm src then Some (wrap (lift_mov m sz dst src)) else None
  | IAlu o sz dst src => if isreg dst && regimm src then option_map wrap (lift_alu m o sz dst src) else None
  | IUn o sz dst => if isreg dst then option_map wrap (lift_un m o sz dst) else None
  | ISetcc c dst => if isreg dst then Some (wrap (lift_setcc m c dst)) else None
  | ILea sz dst src => option_map wrap (lift_lea m sz dst src)
  | IMovx sg dsz ssz dst src => if isreg src then Some (wrap (lift_movx m sg dsz ssz dst src)) else None
  | _ => None
  end.
