import sys
e, f = sys.argv[1], sys.argv[2]
s = open(f).read()
def rep(old, new):
    global s
    assert s.count(old) == 1, (e, s.count(old))
    s = s.replace(old, new)
if e == 'E1':   # phi incoming taken from the wrong predecessor
    rep("""                let successor_block = cfg.block_mut(successor_index)?;
                for phi_node in successor_block.phi_nodes_mut() {
                    if let Some(incoming_scalar) = phi_node.incoming_scalar_mut(node) {""",
        """                let wrong = cfg.predecessor_indices(successor_index)?[0];
                let successor_block = cfg.block_mut(successor_index)?;
                for phi_node in successor_block.phi_nodes_mut() {
                    if let Some(incoming_scalar) = phi_node.incoming_scalar_mut(wrong) {""")
elif e == 'E2': # version scope not popped
    rep("            versioning.end_scope();\n", "")
elif e == 'E3': # successor phis patched after the children are renamed
    rep("""            for successor in dominator_tree.successors(node)? {
                dominator_tree_dfs_pre_order_traverse(
                    cfg,
                    dominator_tree,
                    successor.index(),
                    versioning,
                )?;
            }

""", "")
    rep("""            let immediate_successors = cfg.successor_indices(node)?;
""", """            for successor in dominator_tree.successors(node)? {
                dominator_tree_dfs_pre_order_traverse(
                    cfg,
                    dominator_tree,
                    successor.index(),
                    versioning,
                )?;
            }

            let immediate_successors = cfg.successor_indices(node)?;
""")
elif e == 'E4': # entry slot omitted
    rep("""                    if *df_index == entry {
                        phi_node.set_entry_scalar(scalar.clone());
                    }
""", "")
elif e == 'E5': # guards renamed with the versions at block ENTRY (before the block's instructions)
    rep("""            let block = cfg.block_mut(node)?;
            block.rename_scalars(versioning)?;
""", """            for successor_index in cfg.successor_indices(node)? {
                let edge = cfg.edge_mut(node, successor_index)?;
                if let Some(condition) = edge.condition_mut() {
                    condition.rename_scalars(versioning)?
                }
            }
            let block = cfg.block_mut(node)?;
            block.rename_scalars(versioning)?;
""")
    rep("""                let edge = cfg.edge_mut(node, successor_index)?;
                if let Some(condition) = edge.condition_mut() {
                    condition.rename_scalars(versioning)?
                }

""", "")
open(f, 'w').write(s)
