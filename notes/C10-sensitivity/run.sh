#!/bin/bash
# sensitivity experiments for C10 in the scratch worktree (DESIGN 4.2 row C10)
W=/var/tmp/fx-C10
F=$W/lib/transformation/ssa_transformation.rs
cd /verif
for e in E1 E2 E3 E4 E5; do
  git -C $W checkout -q -- .
  python3 /var/tmp/c10-sens/patch.py $e $F || { echo "$e patch failed" > /var/tmp/c10-sens/$e.log; continue; }
  git -C $W diff --stat > /var/tmp/c10-sens/$e.diff
  git -C $W diff >> /var/tmp/c10-sens/$e.diff
  FALCON_REPO=$W timeout 3000 bin/vcheck C10 > /var/tmp/c10-sens/$e.log 2>&1
  cp /verif/work/alt-21101085b3/evidence/C10.json /var/tmp/c10-sens/$e.evidence.json 2>/dev/null
  mkdir -p /var/tmp/c10-sens/$e.replays && cp /verif/work/alt-21101085b3/replays/C10-*.json /var/tmp/c10-sens/$e.replays/ 2>/dev/null
done
git -C $W checkout -q -- .
echo done > /var/tmp/c10-sens/DONE
