/* x86run -- execute one x86-64 instruction natively from a given register / flag / memory image and
   print the resulting image (the processor as oracle for property C01).

   build:  gcc -O1 -o x86run x86run.c
   input (stdin), one test per line, all numbers hex without 0x:
     T <id> <codehex> <seed> <rflags> <16 gprs rax rcx rdx rbx rsp rbp rsi rdi r8..r15>
       <32 xmm halves: xmm0.lo xmm0.hi ... xmm15.lo xmm15.hi> <nover> { <addr> <byte> }*
   output, one line per test:
     R <id> OK <next_rip> <rflags> <16 gprs> <32 xmm halves> <ndiff> { <addr> <byte> }*
     R <id> SIG <signo> <rip> <fault address>
     R <id> CRASH            (worker died: state unknown)
   Memory image: two scratch regions  LOW = [0x10000000, +0x10000)  HIGH = [0x765432100000, +0x10000),
   byte at address a = pat(seed, a) unless overridden; code at CODE = 0x40001000 inside an int3-filled
   RWX region [0x40000000, +0x2000).  State is loaded and saved through signal contexts (sigreturn loads
   every GPR, RFLAGS and XMM0-15 at once; the int3 after the instruction, or the fetch fault at a branch
   target, delivers the complete post-state in the handler's ucontext).
   Tests run in a forked worker; if the worker dies the parent reports CRASH for that test and forks a
   new worker for the rest. */
#define _GNU_SOURCE
#include <stdio.h>
#include <stdlib.h>
#include <string.h>
#include <stdint.h>
#include <signal.h>
#include <setjmp.h>
#include <unistd.h>
#include <ucontext.h>
#include <sys/mman.h>
#include <sys/wait.h>
#include <sys/time.h>

#define LOW_BASE   0x10000000UL
#define HIGH_BASE  0x765432100000UL
#define REG_SIZE   0x10000UL
#define CODE_BASE  0x40000000UL
#define CODE_SIZE  0x2000UL
#define CODE_AT    0x40001000UL
#define FLAG_MASK  0xCD5UL      /* CF PF AF ZF SF DF OF */
#define MAXOVER 64
#define MAXDIFF 512

typedef struct {
  long id; uint8_t code[32]; int len; uint64_t seed, rflags, gpr[16], xmm[32];
  int nover; uint64_t oaddr[MAXOVER]; uint8_t oval[MAXOVER];
} test_t;

static test_t *tests; static long ntests;

static inline uint8_t pat(uint64_t seed, uint64_t a) {
  uint64_t x = (a & 0xFFFF) * 40503UL + (seed & 0xFFFF) * 12345UL;
  return (uint8_t)((x >> 8) & 0xFF);
}

/* hardware register number -> index into gregs */
static const int GREG[16] = { REG_RAX, REG_RCX, REG_RDX, REG_RBX, REG_RSP, REG_RBP, REG_RSI, REG_RDI,
                              REG_R8, REG_R9, REG_R10, REG_R11, REG_R12, REG_R13, REG_R14, REG_R15 };

static sigjmp_buf env;
static test_t *cur;
static volatile int phase;        /* 0 idle, 1 running the test instruction */
static struct { int kind; int signo; uint64_t rip, addr, rflags, gpr[16], xmm[32]; } out;

static void on_usr1(int s, siginfo_t *si, void *ucv) {
  ucontext_t *uc = (ucontext_t *)ucv; (void)s; (void)si;
  for (int i = 0; i < 16; i++) uc->uc_mcontext.gregs[GREG[i]] = (greg_t)cur->gpr[i];
  uc->uc_mcontext.gregs[REG_RIP] = (greg_t)CODE_AT;
  uint64_t f = (uint64_t)uc->uc_mcontext.gregs[REG_EFL];
  uc->uc_mcontext.gregs[REG_EFL] = (greg_t)((f & ~FLAG_MASK) | (cur->rflags & FLAG_MASK));
  struct _libc_fpstate *fp = (struct _libc_fpstate *)uc->uc_mcontext.fpregs;
  if (fp) {
    for (int i = 0; i < 16; i++) {
      fp->_xmm[i].element[0] = (uint32_t)cur->xmm[2*i];       fp->_xmm[i].element[1] = (uint32_t)(cur->xmm[2*i] >> 32);
      fp->_xmm[i].element[2] = (uint32_t)cur->xmm[2*i+1];     fp->_xmm[i].element[3] = (uint32_t)(cur->xmm[2*i+1] >> 32);
    }
    /* XSAVE-format frame: make sure the SSE component is marked in use */
    uint32_t *sw = (uint32_t *)((char *)fp + 464);
    if (sw[0] == 0x46505853U) { uint64_t *bv = (uint64_t *)((char *)fp + 512); *bv |= 3; }
  }
  phase = 1;
}

static void on_fault(int s, siginfo_t *si, void *ucv) {
  ucontext_t *uc = (ucontext_t *)ucv;
  if (!phase) { _exit(70 + (s & 15)); }          /* a fault outside a test: let the parent restart us */
  phase = 0;
  uint64_t rip = (uint64_t)uc->uc_mcontext.gregs[REG_RIP];
  out.signo = s; out.addr = (uint64_t)si->si_addr; out.rip = rip;
  out.rflags = (uint64_t)uc->uc_mcontext.gregs[REG_EFL];
  for (int i = 0; i < 16; i++) out.gpr[i] = (uint64_t)uc->uc_mcontext.gregs[GREG[i]];
  struct _libc_fpstate *fp = (struct _libc_fpstate *)uc->uc_mcontext.fpregs;
  memset(out.xmm, 0, sizeof out.xmm);
  if (fp) {
    int have = 1;
    uint32_t *sw = (uint32_t *)((char *)fp + 464);
    if (sw[0] == 0x46505853U) { uint64_t bv = *(uint64_t *)((char *)fp + 512); if (!(bv & 2)) have = 0; }
    if (have) for (int i = 0; i < 16; i++) {
      out.xmm[2*i]   = (uint64_t)fp->_xmm[i].element[0] | ((uint64_t)fp->_xmm[i].element[1] << 32);
      out.xmm[2*i+1] = (uint64_t)fp->_xmm[i].element[2] | ((uint64_t)fp->_xmm[i].element[3] << 32);
    }
  }
  int inside = rip >= CODE_AT && rip < CODE_AT + (uint64_t)cur->len;
  if (s == SIGTRAP) { out.kind = 0; out.rip = rip - 1; }                 /* int3 reached: control is at rip-1 */
  else if (s == SIGSEGV && !inside && out.addr == rip) out.kind = 0;     /* fetch fault at a branch target */
  else if ((s == SIGILL || s == SIGBUS || s == SIGSEGV) && rip == CODE_AT + (uint64_t)cur->len + 1) {
    /* the instruction completed and the int3 after it was executed, but the trap could not be delivered
       normally (the instruction left a non-canonical rsp): the context still holds the post-state */
    out.kind = 0; out.rip = rip - 1;
  }
  else out.kind = 1;
  siglongjmp(env, 1);
}

static void on_alarm(int s) { (void)s; if (phase) { phase = 0; out.kind = 1; out.signo = SIGVTALRM; out.rip = 0; out.addr = 0; siglongjmp(env, 1); } }

static uint8_t *lowm = (uint8_t *)LOW_BASE, *highm = (uint8_t *)HIGH_BASE, *codem = (uint8_t *)CODE_BASE;
static uint8_t shadow[2][REG_SIZE];
static uint64_t shadow_seed = ~0UL; static int dirty = 1;

static void prepare(test_t *t) {
  if (t->seed != shadow_seed) {
    for (uint64_t i = 0; i < REG_SIZE; i++) { shadow[0][i] = pat(t->seed, LOW_BASE + i); shadow[1][i] = pat(t->seed, HIGH_BASE + i); }
    shadow_seed = t->seed; dirty = 1;
  }
  if (dirty) { memcpy(lowm, shadow[0], REG_SIZE); memcpy(highm, shadow[1], REG_SIZE); dirty = 0; }
  for (int i = 0; i < t->nover; i++) {
    uint64_t a = t->oaddr[i];
    if (a >= LOW_BASE && a < LOW_BASE + REG_SIZE) lowm[a - LOW_BASE] = t->oval[i];
    else if (a >= HIGH_BASE && a < HIGH_BASE + REG_SIZE) highm[a - HIGH_BASE] = t->oval[i];
  }
  memset(codem, 0xCC, CODE_SIZE);
  memcpy((void *)CODE_AT, t->code, (size_t)t->len);
}

static uint8_t expected(test_t *t, int region, uint64_t off) {
  uint64_t a = (region ? HIGH_BASE : LOW_BASE) + off;
  uint8_t v = shadow[region][off];
  for (int i = 0; i < t->nover; i++) if (t->oaddr[i] == a) v = t->oval[i];
  return v;
}

static void run_one(test_t *t, FILE *o) {
  cur = t; prepare(t);
  struct itimerval it = { {0, 0}, {1, 0} }, off = { {0, 0}, {0, 0} };
  if (sigsetjmp(env, 1) == 0) {
    setitimer(ITIMER_VIRTUAL, &it, NULL);   /* CPU time of this process: immune to scheduling stalls */
    /* make the SSE state "in use" so that the signal frame carries it */
    __asm__ volatile ("pcmpeqd %%xmm0, %%xmm0\n\tpcmpeqd %%xmm15, %%xmm15" ::: "xmm0", "xmm15");
    raise(SIGUSR1);
    _exit(69);   /* not reached: the handler redirects control into the test */
  }
  setitimer(ITIMER_VIRTUAL, &off, NULL);
  if (out.kind == 1) { fprintf(o, "R %ld SIG %d %lx %lx\n", t->id, out.signo, out.rip, out.addr); }
  else {
    fprintf(o, "R %ld OK %lx %lx", t->id, out.rip, out.rflags & FLAG_MASK);
    for (int i = 0; i < 16; i++) fprintf(o, " %lx", out.gpr[i]);
    for (int i = 0; i < 32; i++) fprintf(o, " %lx", out.xmm[i]);
    static uint64_t da[MAXDIFF]; static uint8_t dv[MAXDIFF]; int nd = 0, over = 0;
    for (int r = 0; r < 2; r++) {
      uint8_t *m = r ? highm : lowm;
      if (t->nover == 0 && memcmp(m, shadow[r], REG_SIZE) == 0) continue;
      for (uint64_t i = 0; i < REG_SIZE; i++) {
        uint8_t e = expected(t, r, i);
        if (m[i] != e) { if (nd < MAXDIFF) { da[nd] = (r ? HIGH_BASE : LOW_BASE) + i; dv[nd] = m[i]; nd++; } else over = 1; }
      }
    }
    fprintf(o, " %d", over ? -1 : nd);
    if (!over) for (int i = 0; i < nd; i++) fprintf(o, " %lx %x", da[i], dv[i]);
    fprintf(o, "\n");
  }
  fflush(o);
  dirty = 1;
}

static void worker(long from, int fd) {
  FILE *o = fdopen(fd, "w");
  static uint8_t alt[1 << 16];
  stack_t ss = { .ss_sp = alt, .ss_size = sizeof alt, .ss_flags = 0 };
  sigaltstack(&ss, NULL);
  struct sigaction sa; memset(&sa, 0, sizeof sa);
  sa.sa_flags = SA_SIGINFO | SA_ONSTACK | SA_NODEFER; sigemptyset(&sa.sa_mask);
  sa.sa_sigaction = on_usr1; sigaction(SIGUSR1, &sa, NULL);
  sa.sa_sigaction = on_fault;
  sigaction(SIGSEGV, &sa, NULL); sigaction(SIGILL, &sa, NULL); sigaction(SIGFPE, &sa, NULL);
  sigaction(SIGTRAP, &sa, NULL); sigaction(SIGBUS, &sa, NULL);
  struct sigaction sb; memset(&sb, 0, sizeof sb); sb.sa_handler = on_alarm; sb.sa_flags = SA_ONSTACK | SA_NODEFER; sigaction(SIGVTALRM, &sb, NULL);
  for (long i = from; i < ntests; i++) run_one(&tests[i], o);
  fflush(o); _exit(0);
}

static int hexval(int c) { if (c >= '0' && c <= '9') return c - '0'; if (c >= 'a' && c <= 'f') return c - 'a' + 10; if (c >= 'A' && c <= 'F') return c - 'A' + 10; return -1; }

int main(void) {
  void *p;
  p = mmap((void *)LOW_BASE, REG_SIZE, PROT_READ | PROT_WRITE, MAP_PRIVATE | MAP_ANONYMOUS | MAP_FIXED_NOREPLACE, -1, 0);
  if (p != (void *)LOW_BASE) { fprintf(stderr, "mmap LOW failed\n"); return 2; }
  p = mmap((void *)HIGH_BASE, REG_SIZE, PROT_READ | PROT_WRITE, MAP_PRIVATE | MAP_ANONYMOUS | MAP_FIXED_NOREPLACE, -1, 0);
  if (p != (void *)HIGH_BASE) { fprintf(stderr, "mmap HIGH failed\n"); return 2; }
  p = mmap((void *)CODE_BASE, CODE_SIZE, PROT_READ | PROT_WRITE | PROT_EXEC, MAP_PRIVATE | MAP_ANONYMOUS | MAP_FIXED_NOREPLACE, -1, 0);
  if (p != (void *)CODE_BASE) { fprintf(stderr, "mmap CODE failed\n"); return 2; }

  size_t cap = 1024; tests = malloc(cap * sizeof(test_t));
  char *line = NULL; size_t lcap = 0; ssize_t n;
  while ((n = getline(&line, &lcap, stdin)) > 0) {
    if (line[0] != 'T') continue;
    if ((size_t)ntests == cap) { cap *= 2; tests = realloc(tests, cap * sizeof(test_t)); }
    test_t *t = &tests[ntests]; memset(t, 0, sizeof *t);
    char *s = line + 1, *e;
    t->id = strtol(s, &e, 10); s = e; while (*s == ' ') s++;
    while (hexval(s[0]) >= 0 && hexval(s[1]) >= 0 && t->len < 32) { t->code[t->len++] = (uint8_t)(hexval(s[0]) * 16 + hexval(s[1])); s += 2; }
    t->seed = strtoul(s, &e, 16); s = e;
    t->rflags = strtoul(s, &e, 16); s = e;
    for (int i = 0; i < 16; i++) { t->gpr[i] = strtoul(s, &e, 16); s = e; }
    for (int i = 0; i < 32; i++) { t->xmm[i] = strtoul(s, &e, 16); s = e; }
    t->nover = (int)strtol(s, &e, 16); s = e; if (t->nover > MAXOVER) t->nover = MAXOVER;
    for (int i = 0; i < t->nover; i++) { t->oaddr[i] = strtoul(s, &e, 16); s = e; t->oval[i] = (uint8_t)strtoul(s, &e, 16); s = e; }
    ntests++;
  }
  long next = 0;
  while (next < ntests) {
    int pf[2]; if (pipe(pf)) return 3;
    fflush(stdout);
    pid_t pid = fork();
    if (pid == 0) { close(pf[0]); worker(next, pf[1]); }
    close(pf[1]);
    FILE *in = fdopen(pf[0], "r");
    while ((n = getline(&line, &lcap, in)) > 0) {
      long id; if (sscanf(line, "R %ld", &id) == 1) { fputs(line, stdout); next++; }
    }
    fclose(in);
    int st; waitpid(pid, &st, 0);
    if (next < ntests) { printf("R %ld CRASH\n", tests[next].id); next++; }
  }
  fflush(stdout);
  return 0;
}
